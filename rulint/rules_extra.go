package main

// rules_extra.go: rules added after the first round of seeded changes showed what the first set missed
// (each is formulated from the code's own structure, not from the seed).

import (
	"fmt"
	"go/constant"
	"go/token"
	"go/types"
	"sort"
	"strings"

	"golang.org/x/tools/go/ssa"
)

// LOAD-ALL (C06): Load processes every record the storage returned.
func ruleLoadAll(w *World, r *Report) {
	r.Rule("LOAD-ALL", "in every State implementation's Load, no success return lies inside the loop over the records returned by Storage.Load: a location rebuilt from storage holds every stored record (an early `return nil` after the first expired record would silently drop the rest)", 2)
	a := newLocAnchors(w)
	st := w.Named("core", "Storage")
	for n := range a.stateImp {
		fn := w.Method("core", n.Obj().Name(), "Load")
		key := "fn=" + fname(fn)
		var pairs ssa.Value
		allInstrs(fn, func(in ssa.Instruction) {
			if c, ok := in.(*ssa.Call); ok {
				if o := calleeObj(c.Common()); o != nil && o.Name() == "Load" && isIfaceMethodCall(c.Common(), st, "Load") {
					for _, ref := range *c.Referrers() {
						if ex, ok := ref.(*ssa.Extract); ok && ex.Index == 0 {
							pairs = ex
						}
					}
				}
			}
		})
		if pairs == nil {
			r.violation("LOAD-ALL", key, w.Pos(fn.Pos()), "Load no longer reads the records from Storage.Load")
			continue
		}
		// loop header: an If whose condition compares against len(pairs)
		type edge struct {
			b *ssa.BasicBlock
			i int
		}
		var headers []*ssa.BasicBlock
		for _, b := range fn.Blocks {
			if len(b.Instrs) == 0 {
				continue
			}
			ifi, ok := b.Instrs[len(b.Instrs)-1].(*ssa.If)
			if !ok {
				continue
			}
			if dependsOn(ifi.Cond, func(v ssa.Value) bool {
				c, ok := v.(*ssa.Call)
				if !ok {
					return false
				}
				bi, ok := c.Common().Value.(*ssa.Builtin)
				return ok && bi.Name() == "len" && c.Common().Args[0] == pairs
			}) {
				headers = append(headers, b)
			}
		}
		if len(headers) == 0 {
			r.violation("LOAD-ALL", key, w.Pos(fn.Pos()), "cannot find the loop over the loaded records (shape changed)")
			continue
		}
		bad := ""
		for _, h := range headers {
			body := h.Succs[0]
			ef := func(from *ssa.BasicBlock, si int) bool { return !(from == h && si == 1) }
			if len(body.Instrs) == 0 {
				continue
			}
			first := body.Instrs[0]
			if isSuccessReturn(first, nil) {
				bad = w.PosOf(first)
			}
			if hit, _ := reachPSA(fn, first, isSuccessReturn, nil, ef); hit != nil {
				bad = w.PosOf(hit)
			}
		}
		if bad != "" {
			r.violation("LOAD-ALL", key, bad, "Load can return success from inside the loop over the stored records: the records after that point are never loaded")
		} else {
			r.ok("LOAD-ALL", key, w.Pos(fn.Pos()), "success only after the loop")
		}
	}
}

// HOOKS-BEFORE-LOAD (C15): the cron hooks are installed on a state before the location loads it.
func ruleHooksBeforeLoad(w *World, r *Report) {
	r.Rule("HOOKS-BEFORE-LOAD", "System.newLocation installs the cron hooks on the state (cron.AddHooks) before core.NewLocation loads that state: with a non-persistent cron a reloaded location registers its scheduled rules again only if the add hook is already in place when Load re-adds them", 1)
	nl := w.Method("sys", "System", "newLocation")
	isHooks := func(in ssa.Instruction) bool {
		c := callOf(in)
		return c != nil && isPkgFunc(calleeObj(c), modPath+"/cron", "AddHooks")
	}
	isNewLoc := func(in ssa.Instruction) bool {
		c := callOf(in)
		return c != nil && isPkgFunc(calleeObj(c), modPath+"/core", "NewLocation")
	}
	key := "fn=" + fname(nl)
	n, misses := mustPrecede(nl, isHooks, isNewLoc)
	if n == 0 {
		r.violation("HOOKS-BEFORE-LOAD", key, w.Pos(nl.Pos()), "newLocation no longer creates the location with core.NewLocation")
	} else if len(misses) > 0 {
		r.violation("HOOKS-BEFORE-LOAD", key, w.PosOf(misses[0].Exit), "core.NewLocation (which loads the state) is reachable before cron.AddHooks installed the hooks: scheduled rules of a reloaded location are not registered again")
	} else {
		r.ok("HOOKS-BEFORE-LOAD", key, w.Pos(nl.Pos()), "hooks are installed before the location is loaded")
	}
}

// PANIC-NILUSE (C13): the zero value of a failed comma-ok assertion / lookup is not written through.
func rulePanicNilUse(w *World, r *Report) {
	r.Rule("PANIC-NILUSE", "after `v, ok := x.(T)` with T a map or pointer type, no write through v (map update, field store) is reachable on the !ok edge: there v is nil and the write panics", 10)
	n := 0
	for _, fn := range w.Funcs {
		if isTestFile(w, fn) {
			continue
		}
		p := w.RelPkg(fn)
		if p != "core" && p != "sys" && p != "service" && p != "cron" {
			continue
		}
		counts := 0
		allInstrs(fn, func(in ssa.Instruction) {
			ta, ok := in.(*ssa.TypeAssert)
			if !ok || !ta.CommaOk {
				return
			}
			switch ta.AssertedType.Underlying().(type) {
			case *types.Map, *types.Pointer:
			default:
				return
			}
			var val, okv ssa.Value
			for _, ref := range *ta.Referrers() {
				if ex, isEx := ref.(*ssa.Extract); isEx {
					if ex.Index == 0 {
						val = ex
					} else {
						okv = ex
					}
				}
			}
			if val == nil || okv == nil {
				return
			}
			n++
			counts++
			key := "fn=" + fname(fn) + " assert#" + itoa(counts)
			isNilWrite := func(x ssa.Instruction) bool {
				switch y := x.(type) {
				case *ssa.MapUpdate:
					return y.Map == val
				case *ssa.FieldAddr:
					return y.X == val
				}
				return false
			}
			bad := ""
			for _, b := range fn.Blocks {
				if len(b.Instrs) == 0 {
					continue
				}
				ifi, isIf := b.Instrs[len(b.Instrs)-1].(*ssa.If)
				if !isIf {
					continue
				}
				ct, okc := decodeIf(ifi)
				if !okc || ct.V != okv {
					continue
				}
				fail := b.Succs[1]
				if ct.TrueWhen == "false" {
					fail = b.Succs[0]
				}
				if len(fail.Instrs) == 0 {
					continue
				}
				first := fail.Instrs[0]
				if isNilWrite(first) {
					bad = w.PosOf(first)
				} else if h, _ := reachPS(fn, first, isNilWrite, func(x ssa.Instruction) bool { return x == in }, nil); h != nil {
					// (re-executing the assertion, in a loop, defines the value afresh: that is a barrier)
					bad = w.PosOf(h)
				}
			}
			if bad != "" {
				r.violation("PANIC-NILUSE", key, bad, "a write through the (nil) result of a failed type assertion is reachable on the !ok edge")
			} else {
				r.ok("PANIC-NILUSE", key, w.PosOf(in), "the !ok edge does not write through the value")
			}
		})
	}
	r.stat("PANIC-NILUSE.comma_ok_assertions_to_map_or_pointer", n)
}

// CTX-PER-REQUEST (C11): every HTTP request runs with its own sub-context.
func ruleCtxPerRequest(w *World, r *Report) {
	r.Rule("CTX-PER-REQUEST", "HTTPService.ServeHTTP hands ProcessRequest (and the request decoder) a context obtained from SubContext(): the context carries the request's current location, so requests that shared one context would redirect each other's rule actions", 1)
	sh := w.Method("service", "HTTPService", "ServeHTTP")
	pr := w.Method("service", "Service", "ProcessRequest")
	n := 0
	allInstrs(sh, func(in ssa.Instruction) {
		c := callOf(in)
		if c == nil || c.StaticCallee() != pr {
			return
		}
		n++
		key := "fn=" + fname(sh)
		if dependsOn(c.Args[1], func(v ssa.Value) bool {
			call, ok := v.(*ssa.Call)
			return ok && isMethodOf(calleeObj(call.Common()), modPath+"/core", "Context", "SubContext")
		}) {
			r.ok("CTX-PER-REQUEST", key, w.PosOf(in), "per-request sub-context")
		} else {
			r.violation("CTX-PER-REQUEST", key, w.PosOf(in), "the request is processed with a context that is not a fresh SubContext: concurrent requests to different locations share the context's current location")
		}
	})
	if n == 0 {
		r.violation("CTX-PER-REQUEST", "fn="+fname(sh), w.Pos(sh.Pos()), "ServeHTTP no longer calls ProcessRequest")
	}
}

// PROP-CANON (C19 / C02): a property fact is always stored under its canonical id.
func rulePropCanon(w *World, r *Report) {
	r.Rule("PROP-CANON", "core.GenId returns the canonical property id (genPropId) on every path on which parseProp recognised a property fact, whatever id the caller supplied: the access gates (CheckWrite, CheckRead, Enabled) look the protection properties up under that canonical id only", 1)
	fn := w.Func("core", "GenId")
	pp := w.Func("core", "parseProp")
	gp := w.Func("core", "genPropId")
	var isProp ssa.Value
	allInstrs(fn, func(in ssa.Instruction) {
		if ex, ok := in.(*ssa.Extract); ok && ex.Index == 0 {
			if c, ok := ex.Tuple.(*ssa.Call); ok && c.Common().StaticCallee() == pp {
				isProp = ex
			}
		}
	})
	key := "fn=" + fname(fn)
	if isProp == nil {
		r.violation("PROP-CANON", key, w.Pos(fn.Pos()), "GenId no longer consults parseProp")
		return
	}
	// keep only the isProp == true edges and the err == nil edges; every reachable return must return genPropId(...)
	type edge struct {
		b *ssa.BasicBlock
		i int
	}
	del := map[edge]bool{}
	tested := false
	for _, b := range fn.Blocks {
		if len(b.Instrs) == 0 {
			continue
		}
		if ifi, ok := b.Instrs[len(b.Instrs)-1].(*ssa.If); ok {
			if ct, ok := decodeIf(ifi); ok && ct.V == isProp {
				tested = true
				if ct.TrueWhen == "true" {
					del[edge{b, 1}] = true
				} else if ct.TrueWhen == "false" {
					del[edge{b, 0}] = true
				}
			}
		}
	}
	ef := func(from *ssa.BasicBlock, si int) bool { return !del[edge{from, si}] }
	bad := ""
	target := func(in ssa.Instruction, assume map[ssa.Value]bool) bool {
		ret, ok := in.(*ssa.Return)
		if !ok || !isSuccessReturn(in, assume) {
			return false
		}
		v := resolveSpill(ret.Results[0])
		c, ok := v.(*ssa.Call)
		return !(ok && c.Common().StaticCallee() == gp)
	}
	if !tested {
		bad = w.Pos(fn.Pos())
	} else if h, _ := reachPSA(fn, nil, target, nil, ef); h != nil {
		bad = w.PosOf(h)
	}
	if bad != "" {
		r.violation("PROP-CANON", key, bad, "a property fact can be given an id other than its canonical property id: a write key / read key / enabled property stored under another id is invisible to the access gates")
	} else {
		r.ok("PROP-CANON", key, w.Pos(fn.Pos()), "property facts always get genPropId(id, prop)")
	}
}

// IDX-SORT (C01): writer and reader of the rule index order array elements with the same function.
func ruleIdxSort(w *World, r *Report) {
	r.Rule("IDX-SORT", "sibling agreement: PatternIndex.mod and PatternIndex.searchPairs expand an array value into pairs in the order given by the same function applied to the same (raw) elements (the reader may use a wrapper that returns that function's result whenever it succeeds, and orders the arrays that function refuses in some way of its own — patterns never contain those); a writer that orders elements differently from the reader files the rule under a path the search never walks", 1)
	sortCalls := func(fn *ssa.Function) []string {
		var out []string
		allInstrs(fn, func(in ssa.Instruction) {
			c, ok := in.(*ssa.Call)
			if !ok {
				return
			}
			f := c.Common().StaticCallee()
			if f == nil {
				return
			}
			// a call that takes the type-asserted []interface{} value and returns a []interface{}
			if len(c.Common().Args) != 1 {
				return
			}
			if _, isSlice := c.Common().Args[0].Type().Underlying().(*types.Slice); !isSlice {
				return
			}
			arg := c.Common().Args[0]
			raw := false
			switch a := arg.(type) {
			case *ssa.Extract:
				_, raw = a.Tuple.(*ssa.TypeAssert)
			case *ssa.TypeAssert:
				raw = true
			}
			name := fname(f)
			// a wrapper that hands its parameter to another ordering function and returns that function's result
			// whenever it succeeds orders sortable arrays as that function does
			if g := sortWrapperOf(f); g != nil {
				name = fname(g)
			}
			if !raw {
				name += "(on transformed elements)"
			}
			out = append(out, name)
		})
		return out
	}
	mod := w.Method("core", "PatternIndex", "mod")
	sp := w.Method("core", "PatternIndex", "searchPairs")
	a, b := sortCalls(mod), sortCalls(sp)
	key := "mod vs searchPairs"
	if len(a) == 1 && len(b) == 1 && a[0] == b[0] {
		r.ok("IDX-SORT", key, w.Pos(mod.Pos()), "both order array elements with "+a[0]+" on the raw elements")
	} else {
		r.violation("IDX-SORT", key, w.Pos(mod.Pos()), "mod orders array elements with "+join(a)+" but searchPairs with "+join(b))
	}
}

func join(s []string) string {
	if len(s) == 0 {
		return "<nothing>"
	}
	out := s[0]
	for _, x := range s[1:] {
		out += ", " + x
	}
	return out
}

var _ = token.ADD

// ATOMIC-ONLY (C11): a field that is accessed with sync/atomic anywhere is accessed with sync/atomic everywhere.
func ruleAtomicOnly(w *World, r *Report) {
	r.Rule("ATOMIC-ONLY", "a struct field that some code updates through sync/atomic is never read or written by a plain load / store (nor overwritten as part of its enclosing struct) outside a constructor: mixed access is a data race between requests to different locations (the service statistics are shared by all of them)", 5)
	atomicFields := map[string]bool{}
	for _, fn := range w.Funcs {
		if isTestFile(w, fn) {
			continue
		}
		allInstrs(fn, func(in ssa.Instruction) {
			c := callOf(in)
			if c == nil {
				return
			}
			f := c.StaticCallee()
			if f == nil || f.Pkg == nil || f.Pkg.Pkg.Path() != "sync/atomic" || len(c.Args) == 0 {
				return
			}
			if n, fld, _, ok := fieldOf(c.Args[0]); ok {
				atomicFields[typeKey(n)+"."+fld] = true
			}
		})
	}
	// owners whose struct contains atomic fields
	owners := map[string]bool{}
	for k := range atomicFields {
		for i := len(k) - 1; i >= 0; i-- {
			if k[i] == '.' {
				owners[k[:i]] = true
				break
			}
		}
	}
	counts := map[string]int{}
	for _, fn := range w.Funcs {
		if isTestFile(w, fn) {
			continue
		}
		allInstrs(fn, func(in ssa.Instruction) {
			var key, detail string
			switch x := in.(type) {
			case *ssa.UnOp:
				if x.Op != token.MUL {
					return
				}
				if n, f, base, ok := fieldOf(x.X); ok && atomicFields[typeKey(n)+"."+f] && !isFreshAt(base, in) {
					key, detail = typeKey(n)+"."+f+" plain-read in="+fname(fn), "plain read of a field that is updated with sync/atomic"
				}
				// load of a whole struct that contains atomic fields (copy)
				if n := structNamed(x.Type()); n != nil && owners[typeKey(n)] {
					if _, isAlloc := addrRoot(x.X).(*ssa.Alloc); !isAlloc {
						key, detail = typeKey(n)+" struct-copy in="+fname(fn), "plain copy of a struct whose fields are updated with sync/atomic"
					}
				}
			case *ssa.Store:
				if n, f, base, ok := fieldOf(x.Addr); ok && atomicFields[typeKey(n)+"."+f] && !isFreshAt(base, in) {
					key, detail = typeKey(n)+"."+f+" plain-write in="+fname(fn), "plain write of a field that is updated with sync/atomic"
				}
				if n := structNamed(x.Val.Type()); n != nil && owners[typeKey(n)] {
					if _, isAlloc := addrRoot(x.Addr).(*ssa.Alloc); !isAlloc {
						key, detail = typeKey(n)+" struct-overwrite in="+fname(fn), "a struct whose fields are updated with sync/atomic is overwritten as a whole"
					}
				}
			}
			if key == "" {
				return
			}
			counts[key]++
			if counts[key] > 1 {
				return
			}
			r.violation("ATOMIC-ONLY", key, w.PosOf(in), detail)
		})
	}
	var fs []string
	for k := range atomicFields {
		fs = append(fs, k)
	}
	for _, k := range fs {
		r.ok("ATOMIC-ONLY", "field="+k+" atomic sites", "", "accessed through sync/atomic")
	}
}

// structNamed: t is itself a named struct type (not a pointer to one).
func structNamed(t types.Type) *types.Named {
	n, ok := types.Unalias(t).(*types.Named)
	if !ok {
		return nil
	}
	if _, isStruct := n.Underlying().(*types.Struct); !isStruct {
		return nil
	}
	return n
}

// REM-ORDER (C06): the removal primitive deletes its own storage record before it cascades.
func ruleRemOrder(w *World, r *Report) {
	r.Rule("REM-ORDER", "in every State implementation the removal primitive removes the id's own record from storage before it cascades to the dependents (on every path on which the record exists): if the process dies between the storage writes of one removal, what is left is an orphan property of an id that is gone, never a rule or fact stripped of its acknowledged properties (a disabled rule must not come back enabled after reload)", 2)
	a := newLocAnchors(w)
	st := w.Named("core", "Storage")
	for n := range a.stateImp {
		owner := typeKey(n)
		ff := stateFactField[owner]
		var rem, dd *ssa.Function
		for _, fn := range w.MethodsOf(n) {
			allInstrs(fn, func(in ssa.Instruction) {
				if c := callOf(in); c != nil {
					if b, ok := c.Value.(*ssa.Builtin); ok && b.Name() == "delete" && len(c.Args) == 2 && isFieldLoad(c.Args[0], owner, ff) {
						rem = fn
					}
				}
			})
			if fn.Name() == "deleteDependencies" {
				dd = fn
			}
		}
		if rem == nil || dd == nil {
			undecided("REM-ORDER: removal primitive or deleteDependencies not found for %s", owner)
		}
		isStoreRemove := func(in ssa.Instruction) bool {
			c := callOf(in)
			if c == nil {
				return false
			}
			o := calleeObj(c)
			return o != nil && o.Name() == "Remove" && isIfaceMethodCall(c, st, "Remove")
		}
		isCascade := func(in ssa.Instruction) bool {
			c := callOf(in)
			_, isDefer := in.(*ssa.Defer)
			return c != nil && c.StaticCallee() == dd && !isDefer
		}
		// on the edges on which the fact exists
		type edge struct {
			b *ssa.BasicBlock
			i int
		}
		del := map[edge]bool{}
		for _, b := range rem.Blocks {
			if len(b.Instrs) == 0 {
				continue
			}
			if ifi, ok := b.Instrs[len(b.Instrs)-1].(*ssa.If); ok {
				if ct, ok := decodeIf(ifi); ok {
					if ex, ok := ct.V.(*ssa.Extract); ok && ex.Index == 1 {
						if lk, ok := ex.Tuple.(*ssa.Lookup); ok && lk.CommaOk && isFieldLoad(lk.X, owner, ff) {
							if ct.TrueWhen == "true" {
								del[edge{b, 1}] = true
							} else if ct.TrueWhen == "false" {
								del[edge{b, 0}] = true
							}
						}
					}
				}
			}
		}
		ef := func(from *ssa.BasicBlock, si int) bool { return !del[edge{from, si}] }
		key := "fn=" + fname(rem)
		if h, path := reach(rem, nil, isCascade, isStoreRemove, ef); h != nil {
			r.violation("REM-ORDER", key, w.PosOf(h), "the cascade to the dependents can run before the id's own storage record is removed", blockPathString(w, path)...)
		} else {
			r.ok("REM-ORDER", key, w.Pos(rem.Pos()), "own record first, dependents after")
		}
	}
}

// BOLT-ERR (C06): errors of the bolt API reach the caller of the storage back end.
func ruleBoltErr(w *World, r *Report) { ruleBoltErrIn("storage/bolt", 6)(w, r) }

// ruleBoltErrIn: the same discipline for any package that talks to bolt (the Bolt storage back end, crolt).
func ruleBoltErrIn(pkg string, floor int) ruleFn {
	return func(w *World, r *Report) {
		boltErrIn(w, r, pkg, floor)
	}
}

func boltErrIn(w *World, r *Report, pkg string, floor int) {
	r.Rule("BOLT-ERR", "in the packages that talk to Bolt (the storage back end; the crolt cron service) the error of every bolt call (Put, Delete, CreateBucket..., DeleteBucket, and of the View/Update transactions themselves) reaches the result of the transaction closure and of the calling method: a failed write is never acknowledged", floor)
	isSrc := func(c *ssa.CallCommon) (string, bool) {
		o := calleeObj(c)
		if o == nil || o.Pkg() == nil || o.Pkg().Path() != boltPath || errorResultIndex(c.Signature()) < 0 {
			return "", false
		}
		n := recvNamed(o)
		name := o.Name()
		if n != nil {
			name = n.Obj().Name() + "." + name
		}
		return "bolt." + name, true
	}
	srcs := &errSourceSet{w: w, isSource: isSrc, carries: map[*ssa.Function]string{}}
	scope := func(fn *ssa.Function) bool { return w.RelPkg(fn) == pkg }
	runErrFlow(w, r, "BOLT-ERR", srcs, scope, boltErrExemptions, errflowCfg{handler: defaultErrHandlers, allowClassify: true, successOnly: true})
}

// RESP-LAST (C18): the success output of an /api/loc case is written after everything that can fail.
func ruleRespLast(w *World, r *Report) {
	r.Rule("RESP-LAST", "in every /api/loc/* case of ProcessRequest no System call (nor inner request) that can fail is reachable after the case has started to write its success output: otherwise a failing operation is answered with a success body (HTTP 200) followed by an error.  The batch case, which streams one result per element by design, is the named exception", 10)
	pr := w.Method("service", "Service", "ProcessRequest")
	out := pr.Params[3]
	isOutWrite := func(in ssa.Instruction) bool {
		c := callOf(in)
		if c == nil {
			return false
		}
		if c.IsInvoke() && c.Method.Name() == "Write" && valueIs(c.Value, out) {
			return true
		}
		// fmt.Fprintf(out, ...)
		if f := c.StaticCallee(); f != nil && f.Pkg != nil && f.Pkg.Pkg.Path() == "fmt" && len(c.Args) > 0 {
			if mi, ok := c.Args[0].(*ssa.MakeInterface); ok && valueIs(mi.X, out) {
				return true
			}
			return valueIs(c.Args[0], out)
		}
		return false
	}
	isFallible := func(in ssa.Instruction) bool {
		c := callOf(in)
		if c == nil || errorResultIndex(c.Signature()) < 0 {
			return false
		}
		return isSystemMethod(c) || c.StaticCallee() == pr
	}
	// per case body
	n := 0
	for _, b := range pr.Blocks {
		if len(b.Instrs) == 0 {
			continue
		}
		ifi, ok := b.Instrs[len(b.Instrs)-1].(*ssa.If)
		if !ok {
			continue
		}
		cmp, ok := ifi.Cond.(*ssa.BinOp)
		if !ok || cmp.Op != token.EQL {
			continue
		}
		cs, ok := constString(cmp.Y)
		if !ok || len(cs) < 9 || cs[:9] != "/api/loc/" {
			continue
		}
		body := b.Succs[0]
		n++
		key := "case=" + cs
		bad := ""
		for _, bb := range pr.Blocks {
			if !body.Dominates(bb) {
				continue
			}
			for _, in := range bb.Instrs {
				if !isOutWrite(in) {
					continue
				}
				// a fallible call reachable after the write, staying inside the case
				h, _ := reach(pr, in, func(x ssa.Instruction) bool { return isFallible(x) && body.Dominates(x.Block()) }, nil, func(from *ssa.BasicBlock, si int) bool {
					return body.Dominates(from.Succs[si])
				})
				if h != nil && bad == "" {
					bad = "output written at " + w.PosOf(in) + " before the fallible call at " + w.PosOf(h)
				}
			}
		}
		if bad != "" {
			if cs == "/api/loc/batch" {
				r.exempt("RESP-LAST", key, w.PosOf(ifi), "the batch case streams one result (or an inline {\"error\":...}) per element by design")
			} else {
				r.violation("RESP-LAST", key, w.PosOf(ifi), bad)
			}
		} else {
			r.ok("RESP-LAST", key, w.PosOf(ifi), "success output is written last")
		}
	}
	r.stat("RESP-LAST.cases", n)
}

// LOAD-FRESH (C02/C06): every stored record is decoded into an object of its own.
func ruleLoadFresh(w *World, r *Report) {
	r.Rule("LOAD-FRESH", "in every State implementation's Load, the object each stored record is unmarshalled into is allocated inside the loop over the records (a new one per record): json.Unmarshal keeps the existing keys of a non-nil map, so a variable hoisted out of the loop makes every loaded fact the union of the facts loaded before it", 2)
	a := newLocAnchors(w)
	for n := range a.stateImp {
		fn := w.Method("core", n.Obj().Name(), "Load")
		key := "fn=" + fname(fn)
		cnt := 0
		bad := ""
		allInstrs(fn, func(in ssa.Instruction) {
			c, ok := in.(*ssa.Call)
			if !ok {
				return
			}
			f := c.Common().StaticCallee()
			if f == nil || f.Pkg == nil || f.Pkg.Pkg.Path() != "encoding/json" || f.Name() != "Unmarshal" {
				return
			}
			if !reachable(fn, in, in) {
				return // not in a loop
			}
			cnt++
			// the target: second argument, an interface wrapping a pointer to a local
			tgt := c.Common().Args[1]
			if mi, ok := tgt.(*ssa.MakeInterface); ok {
				tgt = mi.X
			}
			al, ok := tgt.(*ssa.Alloc)
			if !ok {
				bad = "cannot identify the object the record is decoded into at " + w.PosOf(in)
				return
			}
			// every cycle through the Unmarshal passes the allocation (or a store of a fresh value into the slot)
			reinit := func(x ssa.Instruction) bool {
				if x == ssa.Instruction(al) {
					return true
				}
				if st, ok := x.(*ssa.Store); ok && st.Addr == ssa.Value(al) {
					return isNilConst(st.Val) || isFreshBase(st.Val)
				}
				return false
			}
			if h, _ := reach(fn, in, func(x ssa.Instruction) bool { return x == in }, reinit, nil); h != nil {
				bad = "the object decoded into at " + w.PosOf(in) + " is shared by all iterations of the loop"
			}
		})
		switch {
		case cnt == 0:
			r.violation("LOAD-FRESH", key, w.Pos(fn.Pos()), "Load no longer unmarshals the stored records in a loop (shape changed)")
		case bad != "":
			r.violation("LOAD-FRESH", key, w.Pos(fn.Pos()), bad)
		default:
			r.ok("LOAD-FRESH", key, w.Pos(fn.Pos()), "one fresh object per record")
		}
	}
}

// ANC-PATH (C09): the ancestor walk's set holds the current path, not everything ever visited.
func ruleAncPath(w *World, r *Report) {
	r.Rule("ANC-PATH", "the set that guards the ancestor walk against loops holds the locations on the *current path*: every insertion is undone (deleted, possibly deferred) on every way out of that call; a set that only grows would report a shared ancestor (a diamond: two parents with a common grandparent) as a loop", 1)
	var walk *ssa.Function
	for _, name := range []string{"doAncestors", "DoAncestors"} {
		if f := w.TryMethod("core", "Location", name); f != nil {
			allInstrs(f, func(in ssa.Instruction) {
				if c := callOf(in); c != nil && c.StaticCallee() == f {
					walk = f
				}
			})
		}
	}
	if walk == nil {
		undecided("ANC-PATH: recursive ancestor walk not found")
	}
	set := ancLoopSet(walk)
	key := "fn=" + fname(walk)
	if set == nil {
		r.info("ANC-PATH", key, w.Pos(walk.Pos()), "the walk has no set parameter (bounded in another way; see TERM)")
		return
	}
	isInsert := func(in ssa.Instruction) bool {
		mu, ok := in.(*ssa.MapUpdate)
		return ok && mu.Map == ssa.Value(set)
	}
	isDelete := func(in ssa.Instruction) bool {
		c := callOf(in)
		if c == nil {
			return false
		}
		b, ok := c.Value.(*ssa.Builtin)
		return ok && b.Name() == "delete" && len(c.Args) == 2 && c.Args[0] == ssa.Value(set)
	}
	n, misses := mustFollow(walk, isInsert, isDelete)
	if n == 0 {
		r.violation("ANC-PATH", key, w.Pos(walk.Pos()), "the walk never inserts into its set")
	} else if len(misses) > 0 {
		r.violation("ANC-PATH", key, w.PosOf(misses[0].A), "a location stays in the walk's set after its subtree has been left: an ancestor reachable along two paths is reported as a loop")
	} else {
		r.ok("ANC-PATH", key, w.Pos(walk.Pos()), "insertions are undone on every exit")
	}
}

// DISP-REMATCH (C01): dispatch re-matches the rule's `when` against the event.
func ruleDispRematch(w *World, r *Report) {
	r.Rule("DISP-REMATCH", "in FindRules.Do a rule is appended to the work tree only under a test of the number of bindings, and those bindings come from core.Matches(rule.When.Pattern, event) whenever the rule has a `when` (the index and the linear scan only propose candidates; in LinearState.doFindRules the candidate itself is entered only under a test of Matches(pattern, event))", 2)
	matches := w.Func("core", "Matches")
	fn := w.Method("core", "FindRules", "Do")
	var sinks []ssa.Instruction
	allInstrs(fn, func(in ssa.Instruction) {
		st, ok := storesToField(in, "core.FindRules", "Children")
		if !ok {
			return
		}
		if c, ok := st.Val.(*ssa.Call); ok {
			if b, ok := c.Common().Value.(*ssa.Builtin); ok && b.Name() == "append" {
				sinks = append(sinks, c)
			}
		}
	})
	isMatchLen := func(usesWhen bool) func(v ssa.Value) bool {
		return func(v ssa.Value) bool {
			c, ok := v.(*ssa.Call)
			if !ok {
				return false
			}
			b, ok := c.Common().Value.(*ssa.Builtin)
			if !ok || b.Name() != "len" {
				return false
			}
			return dependsOn(c.Common().Args[0], func(x ssa.Value) bool {
				mc, ok := x.(*ssa.Call)
				if !ok || mc.Common().StaticCallee() != matches || len(mc.Common().Args) < 3 {
					return false
				}
				if !usesWhen {
					return true
				}
				pat := dependsOn(mc.Common().Args[1], func(y ssa.Value) bool {
					fa, ok := y.(*ssa.FieldAddr)
					if !ok {
						return false
					}
					_, f, _, ok := fieldOf(fa)
					return ok && (f == "Pattern" || f == "When")
				})
				ev := dependsOn(mc.Common().Args[2], func(y ssa.Value) bool {
					fa, ok := y.(*ssa.FieldAddr)
					if !ok {
						return false
					}
					_, f, _, ok := fieldOf(fa)
					return ok && f == "Event"
				})
				return pat && ev
			})
		}
	}
	key := "fn=" + fname(fn)
	if len(sinks) == 0 {
		r.violation("DISP-REMATCH", key, w.Pos(fn.Pos()), "cannot find where FindRules.Do appends to Children (shape changed)")
	}
	for _, s := range sinks {
		if controlDependsOn(fn, s, isMatchLen(true)) {
			r.ok("DISP-REMATCH", key, w.PosOf(s), "dispatch is control dependent on len(Matches(rule.When.Pattern, event))")
		} else {
			r.violation("DISP-REMATCH", key, w.PosOf(s), "a rule can be dispatched without its `when` having been re-matched against the event")
		}
	}
	// linear scan
	lf := collectorOf(w, w.Method("core", "LinearState", "doFindRules"))
	n := 0
	allInstrs(lf, func(in ssa.Instruction) {
		mu, ok := in.(*ssa.MapUpdate)
		if !ok {
			return
		}
		if _, isMake := mu.Map.(*ssa.MakeMap); !isMake {
			return
		}
		n++
		lkey := "fn=" + fname(lf)
		if controlDependsOn(lf, in, isMatchLen(false)) {
			r.ok("DISP-REMATCH", lkey, w.PosOf(in), "a rule is proposed only under len(Matches(pattern, event))")
		} else {
			r.violation("DISP-REMATCH", lkey, w.PosOf(in), "the linear scan proposes a rule without matching its pattern against the event")
		}
	})
	if n == 0 {
		r.violation("DISP-REMATCH", "fn="+fname(lf), w.Pos(lf.Pos()), "cannot find where the linear scan collects rules (shape changed)")
	}
}

// SET-IF-ABSENT (C04): "if the key is absent, set it" tests and sets the same key.
func ruleSetIfAbsent(w *World, r *Report) {
	r.Rule("SET-IF-ABSENT", "contradiction rule: where core's event walk sets a constant key of a map on the `absent` edge of a comma-ok lookup in the same map, the lookup and the update name the same key (the built-in bindings event / location / ruleId are injected into the bindings exactly when they are missing)", 3)
	for _, spec := range [][2]string{{"EvalRuleCondition", "Do"}} {
		fn := w.Method("core", spec[0], spec[1])
		n := 0
		for _, b := range fn.Blocks {
			if len(b.Instrs) == 0 {
				continue
			}
			ifi, ok := b.Instrs[len(b.Instrs)-1].(*ssa.If)
			if !ok {
				continue
			}
			ct, ok := decodeIf(ifi)
			if !ok {
				continue
			}
			ex, ok := ct.V.(*ssa.Extract)
			if !ok || ex.Index != 1 {
				continue
			}
			lk, ok := ex.Tuple.(*ssa.Lookup)
			if !ok || !lk.CommaOk {
				continue
			}
			k1, ok := constKey(lk.Index)
			if !ok {
				continue
			}
			absent := b.Succs[1]
			if ct.TrueWhen == "false" {
				absent = b.Succs[0]
			}
			// updates of the same map in the absent arm (blocks dominated by it)
			for _, bb := range fn.Blocks {
				if !absent.Dominates(bb) || len(absent.Preds) != 1 {
					continue
				}
				for _, in := range bb.Instrs {
					mu, ok := in.(*ssa.MapUpdate)
					if !ok || mu.Map != lk.X {
						continue
					}
					k2, ok := constKey(mu.Key)
					if !ok {
						continue
					}
					n++
					key := "fn=" + fname(fn) + " key=" + k1
					if k1 == k2 {
						r.ok("SET-IF-ABSENT", key, w.PosOf(in), "tests and sets "+k1)
					} else {
						r.violation("SET-IF-ABSENT", key, w.PosOf(in), "the code tests for key "+k1+" but sets key "+k2+" when it is absent")
					}
				}
			}
		}
		if n == 0 {
			r.violation("SET-IF-ABSENT", "fn="+fname(fn), w.Pos(fn.Pos()), "no set-if-absent injection found (shape changed)")
		}
	}
}

// TIMEOUT-UNSET (C14): only an unset (zero) location timeout is replaced by the system default.
func ruleTimeoutUnset(w *World, r *Report) {
	r.Rule("TIMEOUT-UNSET", "in RunJavascript the system default replaces the location's JavaScript timeout only on the edge of an equality test with zero (unset); a negative value means `no timeout` (documented on Control.JavascriptTimeout and tested as `0 <= timeout` before the watchdog is armed) and must survive", 1)
	fn := w.Func("core", "RunJavascript")
	// where the timeout is chosen: RunJavascript itself, or a helper of core it calls
	scope := []*ssa.Function{fn}
	allInstrs(fn, func(in ssa.Instruction) {
		if c := callOf(in); c != nil && c.StaticCallee() != nil && w.RelPkg(c.StaticCallee()) == "core" && len(c.StaticCallee().Blocks) > 0 && c.StaticCallee() != fn {
			scope = append(scope, c.StaticCallee())
		}
	})
	// a value that is the location's own setting, as it is (conversions aside)
	isZero := func(v ssa.Value) bool {
		c, ok := v.(*ssa.Const)
		return ok && c.Value != nil && c.Value.Kind() == constant.Int && c.Int64() == 0
	}
	// ... or a variable that holds it, or zero while nothing was found (`var timeout; if c != nil { timeout = c.X }`),
	// but nothing else (not the variable after the default went into it)
	var own func(v ssa.Value, d int) (bool, bool) // (only own-or-zero, some own)
	own = func(v ssa.Value, d int) (bool, bool) {
		if d > 8 {
			return false, false
		}
		switch x := v.(type) {
		case *ssa.Convert:
			return own(x.X, d+1)
		case *ssa.ChangeType:
			return own(x.X, d+1)
		case *ssa.Const:
			return isZero(x), false
		case *ssa.Phi:
			all, some := true, false
			for _, e := range x.Edges {
				a, s := own(e, d+1)
				all = all && a
				some = some || s
			}
			return all, some
		case *ssa.UnOp:
			if _, f, _, ok := loadedField(v); ok {
				return f == "JavascriptTimeout", f == "JavascriptTimeout"
			}
			// the variable lives in a slot when closures capture it: what was stored into it before this load
			if al, isAl := x.X.(*ssa.Alloc); isAl && x.Op == token.MUL {
				all, some := true, false
				for _, ref := range *al.Referrers() {
					st, isSt := ref.(*ssa.Store)
					if !isSt || st.Addr != ssa.Value(al) || !reachable(x.Parent(), st, x) {
						continue
					}
					a, sm := own(st.Val, d+1)
					all = all && a
					some = some || sm
				}
				return all, some
			}
		}
		return false, false
	}
	isOwn := func(v ssa.Value) bool {
		all, some := own(v, 0)
		return all && some
	}
	found := 0
	bad := ""
	where := fn
	for _, g := range scope {
		allInstrs(g, func(in ssa.Instruction) {
			ifi, ok := in.(*ssa.If)
			if !ok {
				return
			}
			cmp, ok := ifi.Cond.(*ssa.BinOp)
			if !ok {
				return
			}
			var other ssa.Value
			switch {
			case isOwn(cmp.X):
				other = cmp.Y
			case isOwn(cmp.Y):
				other = cmp.X
			default:
				return
			}
			if !isZero(other) {
				return
			}
			found++
			where = g
			if cmp.Op != token.EQL && cmp.Op != token.NEQ {
				bad = w.PosOf(ifi)
			}
		})
	}
	// default clause: what stands in for an unset timeout is read from SystemParameters when the script runs — a copy
	// kept elsewhere (a package variable that a hook refreshes) misses every update that does not go through the hook
	isDefault := func(v ssa.Value) bool {
		_, f, _, ok := loadedField(v)
		return ok && f == "DefaultJavascriptTimeout"
	}
	stale := ""
	for _, g := range scope {
		allInstrs(g, func(in ssa.Instruction) {
			var vals []ssa.Value
			switch x := in.(type) {
			case *ssa.Store:
				if _, isAlloc := x.Addr.(*ssa.Alloc); !isAlloc {
					return
				}
				if b, isB := x.Val.Type().Underlying().(*types.Basic); !isB || b.Kind() != types.Int64 {
					return
				}
				if n, ok := x.Val.Type().(*types.Named); !ok || n.Obj().Name() != "Duration" {
					return
				}
				vals = append(vals, x.Val)
			case *ssa.Phi:
				if n, ok := x.Type().(*types.Named); !ok || n.Obj().Name() != "Duration" {
					return
				}
				vals = append(vals, x.Edges...)
			default:
				return
			}
			for _, v := range vals {
				if u, ok := v.(*ssa.UnOp); ok && u.Op == token.MUL {
					if _, isGlobal := u.X.(*ssa.Global); isGlobal && !isDefault(v) {
						stale = w.PosOf(in)
					}
				}
			}
		})
	}
	key := "fn=" + fname(fn)
	if stale != "" && bad == "" {
		r.violation("TIMEOUT-UNSET", key+" default", stale, "the timeout of a script is taken from a package variable, not from SystemParameters.DefaultJavascriptTimeout: a copy of the default misses every update of the parameters that does not refresh it")
	}
	switch {
	case found == 0:
		r.exempt("TIMEOUT-UNSET", key, w.Pos(fn.Pos()), "no test of the location's JavascriptTimeout against zero found in RunJavascript or a helper it calls: shape not recognised, not decided")
	case bad != "":
		r.violation("TIMEOUT-UNSET", key, bad, "whether the location's own timeout applies is decided by an ordering test against zero: a negative (disabled) location timeout is taken for `not set` and overridden by the system default")
	default:
		r.ok("TIMEOUT-UNSET", key, w.Pos(where.Pos()), "the location's timeout applies whenever it is not zero (negative: no timeout)")
	}
}

// PROP-MARKER (C02/C19): the property marker is tested where it is stripped.
func rulePropMarker(w *World, r *Report) {
	r.Rule("PROP-MARKER", "sibling agreement on what a property key is: parseProp strips the first byte of a key for which IdProperty holds (p[1:]) and idProperty / genPropId put the marker in front; therefore IdProperty must decide by the key's first byte (p[0] == '!' behind a length test, or strings.HasPrefix), not by the marker occurring anywhere in the key", 1)
	fn := w.Func("core", "IdProperty")
	p := fn.Params[0]
	firstByte, prefix, anywhere := false, false, false
	allInstrs(fn, func(in ssa.Instruction) {
		switch x := in.(type) {
		case *ssa.Lookup:
			if x.X == ssa.Value(p) {
				if c, ok := x.Index.(*ssa.Const); ok && c.Int64() == 0 {
					firstByte = true
				}
			}
		case *ssa.Index:
			if x.X == ssa.Value(p) {
				if c, ok := x.Index.(*ssa.Const); ok && c.Int64() == 0 {
					firstByte = true
				}
			}
		case *ssa.Call:
			if f := x.Common().StaticCallee(); f != nil && f.Pkg != nil && f.Pkg.Pkg.Path() == "strings" {
				switch f.Name() {
				case "HasPrefix":
					prefix = true
				case "Index", "Contains", "ContainsRune", "IndexByte", "IndexRune", "LastIndex", "ContainsAny", "IndexAny":
					anywhere = true
				}
			}
		}
	})
	// and parseProp strips exactly one leading byte
	pp := w.Func("core", "parseProp")
	strips := false
	allInstrs(pp, func(in ssa.Instruction) {
		if sl, ok := in.(*ssa.Slice); ok {
			if c, ok := sl.Low.(*ssa.Const); ok && c.Int64() == 1 && sl.High == nil {
				strips = true
			}
		}
	})
	// p[:1] == "!" is the same test spelled with a slice
	allInstrs(fn, func(in ssa.Instruction) {
		if sl, ok := in.(*ssa.Slice); ok && sl.X == ssa.Value(p) && sl.Low == nil {
			if c, ok := sl.High.(*ssa.Const); ok && c.Int64() == 1 {
				prefix = true
			}
		}
	})
	allInstrs(pp, func(in ssa.Instruction) {
		if c := callOf(in); c != nil {
			if f := c.StaticCallee(); f != nil && f.Pkg != nil && f.Pkg.Pkg.Path() == "strings" && (f.Name() == "TrimPrefix" || f.Name() == "CutPrefix") {
				strips = true
			}
		}
	})
	key := "fn=" + fname(fn)
	switch {
	case anywhere && !(firstByte || prefix):
		// positive evidence only: the marker is searched for anywhere in the key and never tested at byte 0
		r.violation("PROP-MARKER", key, w.Pos(fn.Pos()), "IdProperty looks for the marker anywhere in the key and never tests byte 0, although parseProp strips the first byte: a key that merely contains the marker (for example the documented no-index suffix `note!`) is taken for a property, gets a mangled canonical id and collides with others")
	case !(firstByte || prefix) || !strips:
		r.exempt("PROP-MARKER", key, w.Pos(fn.Pos()), "idiom not recognised (neither a byte-0 test nor a search anywhere / no recognised strip in parseProp): not decided by this rule")
	default:
		r.ok("PROP-MARKER", key, w.Pos(fn.Pos()), "marker tested at byte 0 and stripped from byte 0")
	}
}

// ANC-RESTORE (C09): every callback handed to the ancestor walk re-points the request context at the
// location it visits.  Together with ANC-SELF-LAST this is what leaves the context pointing at the
// location that received the request once an inherited search is over: the walk itself clobbers the
// context (LocationProvider.GetLocation re-points it at a parent that had to be loaded).
func ruleAncRestore(w *World, r *Report) {
	r.Rule("ANC-RESTORE", "every function value that reaches the ancestor walk's callback slot calls, on every path to a success return, a method on the visited location that re-points the request context at it (Context.SetLoc(receiver), directly or through methods on the same receiver): looking up a parent re-points the context at the parent, so the visit of the location itself (last, see ANC-SELF-LAST) is what puts the context back before the rule's actions run", 2)
	setLoc := w.Method("core", "Context", "SetLoc")
	locT := w.Named("core", "Location")
	isLocPtr := func(t types.Type) bool {
		p, ok := t.(*types.Pointer)
		return ok && types.Identical(p.Elem(), locT)
	}
	memo := map[*ssa.Function]int{} // 1 = ensures, 2 = does not, 3 = in progress
	var ensures func(m *ssa.Function, depth int) (bool, ssa.Instruction)
	ensures = func(m *ssa.Function, depth int) (bool, ssa.Instruction) {
		if m == nil || len(m.Blocks) == 0 || len(m.Params) == 0 || !isLocPtr(m.Params[0].Type()) || depth > 6 {
			return false, nil
		}
		switch memo[m] {
		case 1:
			return true, nil
		case 2, 3:
			return false, nil
		}
		memo[m] = 3
		recv := ssa.Value(m.Params[0])
		barrier := func(in ssa.Instruction) bool {
			c := callOf(in)
			if c == nil {
				return false
			}
			if _, isDefer := in.(*ssa.Defer); isDefer {
				return false
			}
			f := c.StaticCallee()
			if f == nil {
				return false
			}
			if f == setLoc {
				return len(c.Args) == 2 && valueIs(c.Args[1], recv)
			}
			if len(c.Args) > 0 && valueIs(c.Args[0], recv) && f != m {
				ok, _ := ensures(f, depth+1)
				return ok
			}
			return false
		}
		h, _ := reach(m, nil, func(in ssa.Instruction) bool { return isSuccessReturn(in, nil) && isSuccessReturnPS(in) }, barrier, nil)
		if h == nil {
			memo[m] = 1
			return true, nil
		}
		memo[m] = 2
		return false, h
	}
	// the callback slot: the dynamic call on a func-typed parameter inside the (recursive) walk
	var walk *ssa.Function
	for _, name := range []string{"doAncestors", "DoAncestors"} {
		if f := w.TryMethod("core", "Location", name); f != nil {
			allInstrs(f, func(in ssa.Instruction) {
				if c := callOf(in); c != nil && c.StaticCallee() == f {
					walk = f
				}
			})
		}
	}
	if walk == nil {
		undecided("ANC-RESTORE: recursive ancestor walk not found")
	}
	var cbParam *ssa.Parameter
	for _, p := range walk.Params {
		if _, ok := p.Type().Underlying().(*types.Signature); ok {
			cbParam = p
		}
	}
	if cbParam == nil {
		undecided("ANC-RESTORE: callback parameter not found")
	}
	seen := map[*ssa.Function]bool{}
	allInstrs(walk, func(in ssa.Instruction) {
		c := callOf(in)
		site, ok := in.(ssa.CallInstruction)
		if c == nil || !ok || !valueIs(c.Value, cbParam) {
			return
		}
		for _, cb := range w.Callees(site) {
			if seen[cb] || !w.IsRulio(cb) || isTestFile(w, cb) {
				continue
			}
			seen[cb] = true
			key := "callback=" + fname(cb)
			if len(cb.Params) == 0 || !isLocPtr(cb.Params[0].Type()) {
				r.violation("ANC-RESTORE", key, w.Pos(cb.Pos()), "callback without a location parameter")
				continue
			}
			// treat the callback like a method on its parameter
			if ok, h := ensures(cb, 0); ok {
				r.ok("ANC-RESTORE", key, w.Pos(cb.Pos()), "re-points the context at the visited location on every success path")
			} else {
				r.violation("ANC-RESTORE", key, w.PosOf(h), "the callback can succeed without re-pointing the request context at the location it visits: after a parent had to be loaded the context stays on the parent, and the child's rule actions run (and write) there")
			}
		}
	})
}

// CRON-RESCHED (C15): the in-memory cron re-inserts a recurring job after every tick, whatever the tick returned.
func ruleCronResched(w *World, r *Report) {
	r.Rule("CRON-RESCHED", "Cron.run puts a recurring job back on the timeline after every tick: with the edge `job.Once() is true` deleted, every path from the tick to a return passes Cron.schedule(job) (a tick that fails — location disabled for a moment, an action error — must not end the schedule while the rule exists); and on the one-shot edge the job is never scheduled again", 1)
	run := w.Method("cron", "Cron", "run")
	sched := w.Method("cron", "Cron", "schedule")
	once := w.Method("cron", "CronJob", "Once")
	var job *ssa.Parameter
	for _, p := range run.Params {
		if pt, ok := p.Type().(*types.Pointer); ok && isNamed(pt.Elem(), modPath+"/cron", "CronJob") {
			job = p
		}
	}
	key := "fn=" + fname(run)
	if job == nil {
		undecided("CRON-RESCHED: job parameter of Cron.run not found")
	}
	isOnce := func(v ssa.Value) bool {
		c, ok := v.(*ssa.Call)
		return ok && c.Common().StaticCallee() == once
	}
	// edges of Ifs that test the Once() result: succ index taken when once is true
	onceEdge := func(b *ssa.BasicBlock) (int, bool) {
		if len(b.Instrs) == 0 {
			return 0, false
		}
		ifi, ok := b.Instrs[len(b.Instrs)-1].(*ssa.If)
		if !ok {
			return 0, false
		}
		ct, ok := decodeIf(ifi)
		if !ok || !isOnce(resolveSpill(ct.V)) {
			return 0, false
		}
		if ct.TrueWhen == "true" {
			return 0, true
		}
		if ct.TrueWhen == "false" {
			return 1, true
		}
		return 0, false
	}
	tested := false
	for _, b := range run.Blocks {
		if _, ok := onceEdge(b); ok {
			tested = true
		}
	}
	if !tested {
		r.exempt("CRON-RESCHED", key, w.Pos(run.Pos()), "Cron.run does not branch on CronJob.Once() directly: idiom not recognised, not decided by this rule")
		return
	}
	recurring := func(b *ssa.BasicBlock, si int) bool { // delete the once edges
		k, ok := onceEdge(b)
		return !ok || si != k
	}
	oneshot := func(b *ssa.BasicBlock, si int) bool { // delete the recurring edges
		k, ok := onceEdge(b)
		return !ok || si == k
	}
	isSched := func(in ssa.Instruction) bool {
		c := callOf(in)
		if c == nil || c.StaticCallee() != sched {
			return false
		}
		for _, a := range c.Args {
			if valueIs(a, job) {
				return true
			}
		}
		return false
	}
	isRet := func(in ssa.Instruction) bool { _, ok := in.(*ssa.Return); return ok }
	// the tick: the dynamic call of the job's function
	var tick ssa.Instruction
	allInstrs(run, func(in ssa.Instruction) {
		if c := callOf(in); c != nil && !c.IsInvoke() && c.StaticCallee() == nil {
			if _, isB := c.Value.(*ssa.Builtin); !isB && tick == nil {
				tick = in
			}
		}
	})
	if tick == nil {
		r.violation("CRON-RESCHED", key, w.Pos(run.Pos()), "Cron.run no longer runs the job's function")
		return
	}
	if h, path := reach(run, tick, isRet, isSched, recurring); h != nil {
		r.violation("CRON-RESCHED", key, w.PosOf(h), "a recurring job can finish a tick without being scheduled again: the rule still exists but never runs again", blockPathString(w, path)...)
		return
	}
	if h, _ := reach(run, nil, isSched, nil, oneshot); h != nil {
		r.violation("CRON-RESCHED", key, w.PosOf(h), "a one-shot job is put back on the timeline")
		return
	}
	r.ok("CRON-RESCHED", key, w.Pos(run.Pos()), "recurring jobs are rescheduled on every path, one-shot jobs never")
}

// PARTITION-AGREE (C16): crolt chooses the bucket pair by the account; the key looked up in it starts with the
// same account.
func rulePartitionAgree(w *World, r *Report) {
	r.Rule("PARTITION-AGREE", "crolt: in every function that builds a job key with genAId(account, id) and chooses buckets with Cron.Partition(x), x is that same account value (or the Account field of the job at hand): Add/update file a job under Partition(job.Account), so a lookup or removal that partitions by anything else searches the wrong buckets, reports success and leaves the job to fire", 3)
	part := w.Method("crolt", "Cron", "Partition")
	gen := w.Func("crolt", "genAId")
	for _, fn := range w.Funcs {
		if w.RelPkg(fn) != "crolt" || isTestFile(w, fn) || fn.Synthetic != "" {
			continue
		}
		var accounts []ssa.Value
		allInstrs(fn, func(in ssa.Instruction) {
			if c := callOf(in); c != nil && c.StaticCallee() == gen && len(c.Args) == 2 {
				accounts = append(accounts, c.Args[0])
			}
		})
		allInstrs(fn, func(in ssa.Instruction) {
			c := callOf(in)
			if c == nil || c.StaticCallee() != part || len(c.Args) != 2 {
				return
			}
			x := c.Args[1]
			key := "fn=" + fname(fn)
			if n, f, _, ok := loadedField(x); ok && typeKey(n) == "crolt.Job" && f == "Account" {
				r.ok("PARTITION-AGREE", key, w.PosOf(in), "partitioned by the job's Account field")
				return
			}
			if len(accounts) == 0 {
				var p *ssa.Parameter
				for _, q := range fn.Params {
					if valueIs(x, q) {
						p = q
					}
				}
				if p != nil {
					r.ok("PARTITION-AGREE", key, w.PosOf(in), "partitioned by parameter "+p.Name()+" (no job key is built here)")
				} else {
					r.exempt("PARTITION-AGREE", key, w.PosOf(in), "no job key is built in this function and the partition argument is not a parameter: not decided")
				}
				return
			}
			for _, a := range accounts {
				if sameValue(a, x) {
					r.ok("PARTITION-AGREE", key, w.PosOf(in), "partitioned by the account that the job key is built from")
					return
				}
			}
			r.violation("PARTITION-AGREE", key, w.PosOf(in), "the buckets are chosen by a value other than the account the job key is built from: the job is looked for in the wrong partition")
		})
	}
}

// RELEASE-LAST (C17): a System operation does not use the location it opened after it has told the cache that
// it is done with it.
func ruleReleaseLast(w *World, r *Report) {
	r.Rule("RELEASE-LAST", "typestate of the open/release bracket in sys.System: after a (non-deferred) call of releaseLocation no use of the location obtained from findLocation is reachable — the release clears the cache entry's in-use mark and may evict the instance, so work done afterwards is done on an instance that later requests no longer share (an acknowledged write can be missed)", 20)
	find := w.Method("sys", "System", "findLocation")
	rel := w.Method("sys", "System", "releaseLocation")
	for _, fn := range w.Funcs {
		if w.RelPkg(fn) != "sys" || isTestFile(w, fn) || fn.Synthetic != "" || fn == find || fn == rel {
			continue
		}
		var opens []*ssa.Call
		allInstrs(fn, func(in ssa.Instruction) {
			if c, ok := in.(*ssa.Call); ok && c.Common().StaticCallee() == find {
				opens = append(opens, c)
			}
		})
		if len(opens) == 0 {
			continue
		}
		isOpen := func(v ssa.Value) bool {
			c, ok := v.(*ssa.Call)
			return ok && c.Common().StaticCallee() == find
		}
		key := "fn=" + fname(fn)
		var plain []ssa.Instruction
		deferred := 0
		allInstrs(fn, func(in ssa.Instruction) {
			c := callOf(in)
			if c == nil || c.StaticCallee() != rel {
				return
			}
			if _, ok := in.(*ssa.Defer); ok {
				deferred++
			} else {
				plain = append(plain, in)
			}
		})
		if len(plain) == 0 {
			if deferred > 0 {
				r.ok("RELEASE-LAST", key, w.Pos(fn.Pos()), "released by a deferred call")
			} else {
				r.info("RELEASE-LAST", key, w.Pos(fn.Pos()), "opens a location and never releases it (the instance stays marked in use until another request releases it; never evicting is the safe direction)")
			}
			continue
		}
		usesLoc := func(in ssa.Instruction) bool {
			c := callOf(in)
			if c == nil || c.StaticCallee() == rel {
				return false
			}
			if _, ok := in.(*ssa.Defer); ok {
				return false
			}
			vals := append([]ssa.Value{}, c.Args...)
			if c.IsInvoke() {
				vals = append(vals, c.Value)
			}
			for _, a := range vals {
				if pt, ok := a.Type().(*types.Pointer); ok && isNamed(pt.Elem(), modPath+"/core", "Location") && dependsOn(a, isOpen) {
					return true
				}
			}
			return false
		}
		bad := false
		for _, p := range plain {
			if h, _ := reach(fn, p, usesLoc, nil, nil); h != nil {
				r.violation("RELEASE-LAST", key, w.PosOf(h), "the location is used after releaseLocation told the cache the request is done with it")
				bad = true
				break
			}
		}
		if !bad {
			r.ok("RELEASE-LAST", key, w.PosOf(plain[0]), "no use of the location after the release")
		}
	}
}

// CACHE-ERR-ORIGIN (C17): what the cache returns as an error is the error of opening the location, nothing of
// the cache's own bookkeeping.
func ruleCacheErrOrigin(w *World, r *Report) {
	r.Rule("CACHE-ERR-ORIGIN", "the error result of CachedLocation.Get originates only in System.OpenLocation or in the existence check of an already loaded entry (sys.locationCreated and the not-found error built from its verdict — the same two origins OpenLocation itself has), followed through phis, local slots and wrapping calls that take an error: an error of the cache's own bookkeeping (reading the optional cacheTTL property) must not become the request's result, because it would be returned on the request that loads the location and not on those served from the cache — the answer would depend on the TTL", 1)
	fn := w.Method("sys", "CachedLocation", "Get")
	open := w.Method("sys", "System", "OpenLocation")
	idx := errorResultIndex(fn.Signature)
	key := "fn=" + fname(fn)
	if idx < 0 {
		r.info("CACHE-ERR-ORIGIN", key, w.Pos(fn.Pos()), "Get returns no error")
		return
	}
	origins := map[string]string{}
	seen := map[ssa.Value]bool{}
	var walk func(v ssa.Value, d int)
	walk = func(v ssa.Value, d int) {
		if v == nil || seen[v] || d > 30 {
			return
		}
		seen[v] = true
		switch x := v.(type) {
		case *ssa.Const:
			return
		case *ssa.Phi:
			for _, e := range x.Edges {
				walk(e, d+1)
			}
		case *ssa.Extract:
			walk(x.Tuple, d+1)
		case *ssa.MakeInterface:
			walk(x.X, d+1)
		case *ssa.ChangeInterface:
			walk(x.X, d+1)
		case *ssa.UnOp:
			if a, ok := x.X.(*ssa.Alloc); ok && x.Op == token.MUL {
				for _, ref := range *a.Referrers() {
					if st, ok := ref.(*ssa.Store); ok && st.Addr == a {
						walk(st.Val, d+1)
					}
				}
				return
			}
			origins["load "+x.String()] = w.PosOf(x)
		case *ssa.Call:
			f := x.Common().StaticCallee()
			// a wrapper: some argument is itself an error
			wrapped := false
			for _, a := range x.Common().Args {
				if isErrorType(a.Type()) {
					wrapped = true
					walk(a, d+1)
				}
			}
			if wrapped {
				return
			}
			name := "dynamic call"
			if f != nil {
				name = fname(f)
			} else if x.Common().IsInvoke() {
				name = x.Common().Method.FullName()
			}
			origins[name] = w.PosOf(x)
		case *ssa.Parameter, *ssa.Global, *ssa.FreeVar:
			origins[v.Name()] = w.Pos(v.Pos())
		default:
			origins[v.String()] = w.Pos(v.Pos())
		}
	}
	allInstrs(fn, func(in ssa.Instruction) {
		if ret, ok := in.(*ssa.Return); ok && idx < len(ret.Results) {
			walk(ret.Results[idx], 0)
		}
	})
	var bad []string
	var where string
	allowed := map[string]bool{fname(open): true, fname(w.Func("sys", "locationCreated")): true, fname(w.Func("core", "NewNotFoundError")): true}
	for o, p := range origins {
		if !allowed[o] {
			bad = append(bad, o)
			where = p
		}
	}
	sort.Strings(bad)
	if len(bad) > 0 {
		r.violation("CACHE-ERR-ORIGIN", key, where, "the error returned by CachedLocation.Get can also originate in "+strings.Join(bad, ", ")+": an error of the cache's own bookkeeping fails the request that happens to load the location, while requests served from the cache succeed")
		return
	}
	if _, ok := origins[fname(open)]; !ok {
		r.violation("CACHE-ERR-ORIGIN", key, w.Pos(fn.Pos()), "the error of System.OpenLocation no longer reaches the result of CachedLocation.Get")
		return
	}
	r.ok("CACHE-ERR-ORIGIN", key, w.Pos(fn.Pos()), "only the errors of opening and of the existence check are returned")
}

// PENDING-COUNT (C17): the in-use mark of a shared cache entry has to count its users.
func rulePendingCount(w *World, r *Report) {
	r.Rule("PENDING-COUNT", "the in-use mark of a location-cache entry (CachedLocation.Pending) is shared by every request that was handed the entry's instance (premise, checked: CachedLocations.Open returns the cached instance to later callers while it is live, and more than one System operation brackets its work with findLocation/releaseLocation); therefore the value stored into the mark on release must depend on the mark's previous value (a count), otherwise the first request to finish clears the mark for all the others: their instance can be evicted while they still write to it, the next request loads a second instance without that write, and requests started after the write was acknowledged are served the second instance", 1)
	named := w.Named("sys", "CachedLocation")
	st := structOf(named)
	has := false
	for i := 0; st != nil && i < st.NumFields(); i++ {
		if st.Field(i).Name() == "Pending" {
			has = true
		}
	}
	if !has {
		r.exempt("PENDING-COUNT", "field=sys.CachedLocation.Pending", w.Pos(named.Obj().Pos()), "the entry has no Pending field any more: the in-use protocol changed, not decided by this rule")
		return
	}
	// premise: several bracketed operations
	rel := w.Method("sys", "System", "releaseLocation")
	if len(w.Callers(rel)) < 2 {
		r.exempt("PENDING-COUNT", "field=sys.CachedLocation.Pending", w.Pos(rel.Pos()), "premise fails: fewer than two operations release a location")
		return
	}
	n := 0
	for _, fn := range w.Funcs {
		if w.RelPkg(fn) != "sys" || isTestFile(w, fn) {
			continue
		}
		allInstrs(fn, func(in ssa.Instruction) {
			sto, ok := storesToField(in, "sys.CachedLocation", "Pending")
			if !ok {
				return
			}
			if isFreshAt(sto.Addr.(*ssa.FieldAddr).X, in) {
				return // initialisation of a new entry
			}
			n++
			key := "field=sys.CachedLocation.Pending fn=" + fname(fn)
			prev := func(v ssa.Value) bool {
				nm, f, _, ok := loadedField(v)
				return ok && typeKey(nm) == "sys.CachedLocation" && f == "Pending"
			}
			if dependsOn(sto.Val, prev) {
				r.ok("PENDING-COUNT", key, w.PosOf(in), "the new mark is computed from the previous one")
			} else {
				r.violation("PENDING-COUNT", key, w.PosOf(in), "the in-use mark is overwritten with a value that does not depend on its previous value: one request's release clears the mark of every other request that still uses the instance")
			}
		})
	}
	if n == 0 {
		r.exempt("PENDING-COUNT", "field=sys.CachedLocation.Pending", w.Pos(named.Obj().Pos()), "Pending is never written after construction: not decided by this rule")
	}
}

// APPEND-CLOBBER (C11, C16): the slice-insert slip `append(append(s[:i], x), s[i:]...)`.
func ruleAppendClobber(prop string) ruleFn {
	return func(w *World, r *Report) {
		r.Rule("APPEND-CLOBBER", "no append writes into the backing array of a slice whose tail is read afterwards: `append(b[:h], x...)` stores x at b[h...] in place whenever the capacity allows, so a later `b[l:]` of the same base (same SSA value, or loaded from the same field with no store in between) reads what the append just overwrote.  In the in-memory cron's timeline, which all locations share, that drops another location's pending job and fires the inserted one twice (expected matches: none; positive and negative examples in rulint/fixtures/patterns are matched on every run)", 2)
		match := func(fn *ssa.Function) int { return len(findAppendClobber(fn)) }
		selfTest(r, "APPEND-CLOBBER", match, []string{"Timeline.AppendClobber", "Timeline.AppendClobber2"}, []string{"Timeline.AppendInsertOK", "Timeline.AppendInsertOK2", "Timeline.AppendDeleteOK"})
		scanned, appends := 0, 0
		for _, fn := range w.Funcs {
			if isTestFile(w, fn) || fn.Synthetic != "" {
				continue
			}
			scanned++
			allInstrs(fn, func(in ssa.Instruction) {
				if _, ok := isBuiltinCall(in, "append"); ok {
					appends++
				}
			})
			for _, in := range findAppendClobber(fn) {
				r.violation("APPEND-CLOBBER", "fn="+fname(fn), w.PosOf(in), "this append writes into the backing array of a slice whose tail is read afterwards: the elements from the insertion point on are overwritten before they are copied")
			}
		}
		r.ok("APPEND-CLOBBER", "scope=all rulio functions", "", fmt.Sprintf("%d functions, %d append calls scanned", scanned, appends))
		r.stat("APPEND-CLOBBER.appends_scanned", appends)
	}
}

// LOOP-ALIAS (C04): every result produced by one pass of a loop is its own object.
func ruleLoopAlias(w *World, r *Report) {
	r.Rule("LOOP-ALIAS", "in core (query evaluation, event walk, matching) no loop appends to a list an object of reference type (map, slice, heap struct) that was allocated outside the loop and is written inside it: every entry of the list would be the same object, so the n binding sets a condition produces collapse into n copies of the last one and the rule's actions run n times with the same bindings (expected matches: none; examples in rulint/fixtures/patterns are matched on every run)", 2)
	match := func(fn *ssa.Function) int { return len(findLoopAlias(fn)) }
	selfTest(r, "LOOP-ALIAS", match, []string{"LoopAlias"}, []string{"LoopAliasOK"})
	scanned, loops := 0, 0
	for _, fn := range w.Funcs {
		if isTestFile(w, fn) || fn.Synthetic != "" || w.RelPkg(fn) != "core" {
			continue
		}
		scanned++
		loops += len(naturalLoops(fn))
		for _, in := range findLoopAlias(fn) {
			r.violation("LOOP-ALIAS", "fn="+fname(fn), w.PosOf(in), "the object appended here is allocated outside the loop and written inside it: all entries of the list alias one object")
		}
	}
	r.ok("LOOP-ALIAS", "scope=core", "", fmt.Sprintf("%d functions, %d loops scanned", scanned, loops))
}

// LOOP-EXHAUST (C02, C08): the term extractor visits every key / element.
var loopExhaustTable = []struct{ Rel, Type, Name, Why string }{
	{"core", "", "extractTermsAux", "the terms of a fact are the union over all its keys and elements: a key that is not visited is not indexed, and the fact is not a candidate for searches (and deleteWith cascades) on that key"},
	{"core", "", "ExtractTerms", "as above"},
	// collectors: every element of what they range over ends up in what they build
	{"core", "", "mapToPairs", "every key of a pattern / event becomes a pair of the trie walk"},
	{"core", "", "cast", "every element of a container is converted for the matcher"},
	{"core", "", "ISlice", "every element of a typed slice is converted"},
	{"core", "Bindings", "Bind", "every entry / element of the pattern is bound"},
	{"core", "", "ExtendBindings", "every incoming and every found binding goes into the extended binding"},
	{"core", "Bindings", "StripQuestionMarks", "every binding becomes a script variable"},
	{"core", "StringSet", "AddAll", "set union"},
	{"core", "StringSet", "Intersect", "set intersection looks at every element"},
	{"core", "StringSet", "Array", "every id of a candidate set is visited"},
	{"core", "TermIndex", "RemIdTerms", "an id is removed from every one of its terms"},
	{"core", "TermIndex", "RemID", "as above"},
	{"core", "IndexedState", "add", "every term of a fact is indexed"},
	{"core", "IndexedState", "rem", "every term of a fact is un-indexed"},
	{"core", "IndexedState", "deleteDependencies", "every dependent is removed"},
	{"core", "LinearState", "deleteDependencies", "every dependent is removed"},
	{"core", "IndexedState", "search", "every candidate is examined"},
	{"core", "LinearState", "search", "every stored fact is examined"},
	{"core", "IndexedState", "doFindRules", "every candidate rule is examined"},
	{"core", "LinearState", "doFindRules", "every stored rule is examined"},
	{"core", "SearchResults", "Merge", "every found fact of an ancestor is merged"},
	{"core", "Location", "doAncestors", "every parent of a location is visited (or recognised as visited already): a parent skipped by a `break` takes its whole ancestry out of inherited searches and event dispatch"},
}

func ruleLoopExhaust(prop string) ruleFn {
	return func(w *World, r *Report) {
		r.Rule("LOOP-EXHAUST", "the loops of the collectors (the term extractor that feeds the fact index, the conversions in front of the matcher, binding substitution and extension, set operations, index maintenance, the cascade, the candidate loops of search and rule lookup) are left only by exhaustion or by an error: no `break` and no success return inside them, so every key, element, term, candidate and dependent is processed whatever the iteration order (table of functions with one reason each in the checker; a function that no longer exists is listed as not decided; examples in rulint/fixtures/patterns are matched on every run)", 8)
		match := func(fn *ssa.Function) int {
			n := 0
			for _, l := range naturalLoops(fn) {
				n += len(loopEarlyExits(l))
			}
			return n
		}
		selfTest(r, "LOOP-EXHAUST", match, []string{"LoopEarlyExit"}, []string{"LoopExhaustOK", "LoopAliasOK"})
		for _, t := range loopExhaustTable {
			var fn *ssa.Function
			if t.Type == "" {
				fn = w.TryFunc(t.Rel, t.Name)
			} else {
				fn = w.TryMethod(t.Rel, t.Type, t.Name)
			}
			if fn == nil {
				r.exempt("LOOP-EXHAUST", "fn="+t.Rel+"."+t.Name, "", "function no longer exists: not decided")
				continue
			}
			if t.Name == "doFindRules" {
				fn = collectorOf(w, fn)
			}
			withAnon(fn, func(f *ssa.Function) {
				loops := naturalLoops(f)
				key := "fn=" + fname(f)
				bad := false
				for _, l := range loops {
					for _, ex := range loopEarlyExits(l) {
						last := ex.From.Instrs[len(ex.From.Instrs)-1]
						r.violation("LOOP-EXHAUST", key, w.PosOf(last), "the loop can be left before all keys / elements were visited: "+t.Why)
						bad = true
					}
				}
				if !bad {
					r.ok("LOOP-EXHAUST", key, w.Pos(f.Pos()), fmt.Sprintf("%d loops, left only by exhaustion or error", len(loops)))
				}
			})
		}
	}
}

// IDX-REST (C01): the trie walk never forgets the pairs that remain.
func ruleIdxRest(w *World, r *Report) {
	r.Rule("IDX-REST", "both walks over the pattern trie (PatternIndex.mod, the writer, and searchPairs, the reader) consume the sorted key/value pairs head first; every recursive call continues with a list that data-depends on the remaining pairs (`pairs[1:]`, possibly with the pairs of a nested map or array put in front): a recursive call that is handed only the nested pairs drops the rest of the outer pattern, so a rule that constrains a nested map *and* a later sibling key is filed (or looked for) under the wrong node and never becomes a candidate", 4)
	for _, name := range []string{"mod", "searchPairs"} {
		fn := w.Method("core", "PatternIndex", name)
		var pairs *ssa.Parameter
		for _, p := range fn.Params {
			if _, ok := p.Type().Underlying().(*types.Slice); ok {
				pairs = p
			}
		}
		if pairs == nil {
			undecided("IDX-REST: %s has no slice parameter", fname(fn))
		}
		isRest := func(v ssa.Value) bool {
			sl, ok := v.(*ssa.Slice)
			if !ok || !valueIs(sl.X, pairs) || sl.Low == nil {
				return false
			}
			c, ok := sl.Low.(*ssa.Const)
			return ok && c.Value != nil && c.Int64() >= 1
		}
		n := 0
		allInstrs(fn, func(in ssa.Instruction) {
			c := callOf(in)
			if c == nil || c.StaticCallee() != fn {
				return
			}
			if _, isDefer := in.(*ssa.Defer); isDefer {
				return
			}
			var arg ssa.Value
			for _, a := range c.Args {
				if types.Identical(a.Type(), pairs.Type()) {
					arg = a
				}
			}
			if arg == nil {
				return
			}
			n++
			key := "fn=" + fname(fn) + " call#" + itoa(n)
			if dependsOnFS(arg, isRest) {
				r.ok("IDX-REST", key, w.PosOf(in), "continues with the remaining pairs")
			} else {
				r.violation("IDX-REST", "fn="+fname(fn), w.PosOf(in), "this recursive call is handed a list of pairs that does not include the remaining pairs of the pattern: the outer keys after a nested value are dropped")
			}
		})
		if n == 0 {
			r.exempt("IDX-REST", "fn="+fname(fn), w.Pos(fn.Pos()), "not recursive any more: shape not recognised, not decided")
		}
	}
}

// IDX-RESET (C01): wiping the fact map wipes the indexes with it.
func ruleIdxReset(w *World, r *Report) {
	r.Rule("IDX-RESET", "sibling fields of IndexedState are reset together: a function that stores a fresh (empty) map into IdToFact — the wholesale removal used by Clear, Delete and construction — also stores a fresh RuleIndex and a fresh FactIndex on every path through that store (or all its callers inside the type do): a rule index that survives a Clear proposes ids that no longer exist, and the whole lookup of a matching event fails with `lost rule`", 1)
	n := w.Named("core", "IndexedState")
	owner := typeKey(n)
	methods := w.MethodsOf(n)
	if f := w.TryFunc("core", "NewIndexedState"); f != nil {
		methods = append(methods, f)
	}
	freshStore := func(in ssa.Instruction, field string) bool {
		st, ok := storesToField(in, owner, field)
		if !ok {
			return false
		}
		switch x := st.Val.(type) {
		case *ssa.MakeMap, *ssa.Alloc:
			return true
		case *ssa.Call:
			_ = x
			return true // a constructor call (NewPatternIndex, NewTermIndex)
		}
		return false
	}
	resets := func(fn *ssa.Function, field string) bool {
		found := false
		allInstrs(fn, func(in ssa.Instruction) {
			if freshStore(in, field) {
				found = true
			}
		})
		return found
	}
	count := 0
	for _, fn := range methods {
		var wipes []ssa.Instruction
		allInstrs(fn, func(in ssa.Instruction) {
			if st, ok := storesToField(in, owner, "IdToFact"); ok {
				if _, isMk := st.Val.(*ssa.MakeMap); isMk {
					wipes = append(wipes, in)
				}
			}
		})
		if len(wipes) == 0 {
			continue
		}
		count++
		key := "fn=" + fname(fn)
		missing := ""
		for _, field := range []string{"RuleIndex", "FactIndex"} {
			for _, wp := range wipes {
				isReset := func(x ssa.Instruction) bool { return freshStore(x, field) }
				// on every path through the wipe: a reset before it or after it
				before, _ := reach(fn, nil, func(x ssa.Instruction) bool { return x == wp }, isReset, nil)
				after, _ := reach(fn, wp, isExit, isReset, nil)
				if before != nil && after != nil {
					missing = field
				}
			}
		}
		if missing == "" {
			r.ok("IDX-RESET", key, w.PosOf(wipes[0]), "RuleIndex and FactIndex are replaced on every path through the wipe")
			continue
		}
		// every caller inside the type resets the field itself, around a call on a fresh receiver
		callersOK := true
		ncall := 0
		for _, e := range w.Callers(fn) {
			cf := e.Caller.Func
			if isTestFile(w, cf) {
				continue
			}
			ncall++
			if !resets(cf, missing) {
				callersOK = false
			}
		}
		if ncall > 0 && callersOK {
			r.ok("IDX-RESET", key, w.PosOf(wipes[0]), missing+" is replaced by every caller")
		} else {
			r.violation("IDX-RESET", key, w.PosOf(wipes[0]), "the fact map is replaced by an empty one but "+missing+" is not (on some path, and not by every caller): ids of removed rules stay in the index")
		}
	}
	if count == 0 {
		r.exempt("IDX-RESET", "type="+owner, w.Pos(n.Obj().Pos()), "no function stores a fresh map into IdToFact: shape not recognised, not decided")
	}
}

// CACHE-GET-OR-CREATE (C17): a new cache entry is published only where the table holds none.
func ruleCacheGetOrCreate(w *World, r *Report) {
	r.Rule("CACHE-GET-OR-CREATE", "get-or-create on the location-cache table is decided by presence: in CachedLocations.Open the store of a newly allocated entry into `locs` is reachable only on the edge on which a comma-ok lookup of `locs` (in the same function, i.e. the same critical section) found no entry.  Deciding by `the entry's location is nil` instead takes an entry that was published but is not loaded yet (its creator releases the table lock before it takes the entry lock) for `no entry`: a second first-request publishes a second entry and loads a second instance, and the first request's acknowledged writes go to an instance nobody will see again", 1)
	fn := w.Method("sys", "CachedLocations", "Open")
	key := "fn=" + fname(fn)
	isLocs := func(v ssa.Value) bool {
		n, f, _, ok := loadedField(v)
		return ok && typeKey(n) == "sys.CachedLocations" && f == "locs"
	}
	var publish []ssa.Instruction
	allInstrs(fn, func(in ssa.Instruction) {
		mu, ok := in.(*ssa.MapUpdate)
		if !ok || !isLocs(mu.Map) {
			return
		}
		if isFreshAt(mu.Value, in) {
			publish = append(publish, in)
		}
	})
	if len(publish) == 0 {
		r.exempt("CACHE-GET-OR-CREATE", key, w.Pos(fn.Pos()), "Open does not store a newly allocated entry into the table: shape not recognised, not decided")
		return
	}
	// edges on which a comma-ok lookup of locs reports "present"
	present := map[bedge]bool{}
	n := 0
	for _, b := range fn.Blocks {
		if len(b.Instrs) == 0 {
			continue
		}
		ifi, ok := b.Instrs[len(b.Instrs)-1].(*ssa.If)
		if !ok {
			continue
		}
		ct, ok := decodeIf(ifi)
		if !ok {
			continue
		}
		tv := resolveSpill(ct.V)
		if ex, ok := tv.(*ssa.Extract); ok && ex.Index == 1 {
			lk, ok := ex.Tuple.(*ssa.Lookup)
			if !ok || !lk.CommaOk || !isLocs(lk.X) {
				continue
			}
			n++
			if ct.TrueWhen == "true" {
				present[bedge{b, 0}] = true
			} else if ct.TrueWhen == "false" {
				present[bedge{b, 1}] = true
			}
			continue
		}
		// `cl := locs[name]; if cl != nil`: the entry itself (or the first result of a comma-ok lookup) against nil
		var lk *ssa.Lookup
		if l, ok := tv.(*ssa.Lookup); ok && !l.CommaOk {
			lk = l
		} else if ex, ok := tv.(*ssa.Extract); ok && ex.Index == 0 {
			lk, _ = ex.Tuple.(*ssa.Lookup)
		}
		if lk == nil || !isLocs(lk.X) {
			continue
		}
		n++
		if ct.TrueWhen == "nonnil" {
			present[bedge{b, 0}] = true
		} else if ct.TrueWhen == "nil" {
			present[bedge{b, 1}] = true
		}
	}
	// with the "absent" edges deleted (only "present" outcomes remain) the publication must be unreachable
	absent := map[bedge]bool{}
	for e := range present {
		absent[bedge{e.b, 1 - e.i}] = true
	}
	isPublish := func(x ssa.Instruction) bool {
		for _, p := range publish {
			if x == p {
				return true
			}
		}
		return false
	}
	if n == 0 {
		r.violation("CACHE-GET-OR-CREATE", key, w.PosOf(publish[0]), "a new entry is published in the cache table without a test, in this critical section, of whether the table already holds an entry for the name: an entry that is still being loaded is replaced and the location is loaded twice")
		return
	}
	if h, _ := reach(fn, nil, isPublish, nil, edgeFilterOf(absent)); h != nil {
		r.violation("CACHE-GET-OR-CREATE", key, w.PosOf(h), "a new entry can be published although the table holds an entry for the name")
		return
	}
	r.ok("CACHE-GET-OR-CREATE", key, w.PosOf(publish[0]), "published only on the not-present edge of the table lookup")
}

// THUNK-LAZY (C04): the thunk builders do not look into the bindings before the thunk runs.
func ruleThunkLazy(w *World, r *Report) {
	r.Rule("THUNK-LAZY", "Location.ExecAction first asks getActionFunc (or an ActionInterpreter's GetThunk) for a thunk and only then replaces the event in the bindings by a private copy (maybeCopyEvent) before it runs the thunk.  Therefore the thunk builders use the bindings parameter only by capturing it in the closure they return or by handing it on to another builder: a call on it, a lookup or a range in the builder's own body takes a snapshot that still holds the event map shared by every action of the event", 1)
	exec := w.Method("core", "Location", "ExecAction")
	gaf := w.Method("core", "Location", "getActionFunc")
	bsT := w.Named("core", "Bindings")
	// premise: the copy is made after the builder returned
	copyEv := w.Func("core", "maybeCopyEvent")
	var callGaf, callCopy ssa.Instruction
	allInstrs(exec, func(in ssa.Instruction) {
		if c := callOf(in); c != nil {
			if c.StaticCallee() == gaf {
				callGaf = in
			}
			if c.StaticCallee() == copyEv {
				callCopy = in
			}
		}
	})
	if callGaf == nil || callCopy == nil || !reachable(exec, callGaf, callCopy) || reachable(exec, callCopy, callGaf) {
		r.exempt("THUNK-LAZY", "fn="+fname(exec), w.Pos(exec.Pos()), "premise fails: ExecAction no longer copies the event after it built the thunk; not decided by this rule")
		return
	}
	builders := map[*ssa.Function]bool{gaf: true}
	iface := w.Iface("core", "ActionInterpreter")
	for _, n := range w.Implementers(iface) {
		if f := w.TryMethod(typeRel(n), n.Obj().Name(), "GetThunk"); f != nil && !isTestFile(w, f) {
			builders[f] = true
		}
	}
	var fs []*ssa.Function
	for f := range builders {
		fs = append(fs, f)
	}
	sort.Slice(fs, func(i, j int) bool { return fs[i].String() < fs[j].String() })
	for _, fn := range fs {
		var bs *ssa.Parameter
		for _, p := range fn.Params {
			if types.Identical(p.Type(), bsT) {
				bs = p
			}
		}
		key := "fn=" + fname(fn)
		if bs == nil {
			r.info("THUNK-LAZY", key, w.Pos(fn.Pos()), "no Bindings parameter")
			continue
		}
		var bad ssa.Instruction
		allInstrs(fn, func(in ssa.Instruction) {
			if bad != nil {
				return
			}
			uses := false
			for _, op := range in.Operands(nil) {
				if op == nil || *op == nil {
					continue
				}
				if valueIs(*op, bs) {
					uses = true
				}
				// the address of the variable the parameter was spilled into (a pointer-receiver call on it)
				if al, ok := (*op).(*ssa.Alloc); ok {
					for _, ref := range *al.Referrers() {
						if st, ok := ref.(*ssa.Store); ok && st.Addr == ssa.Value(al) && st.Val == ssa.Value(bs) && ssa.Instruction(st) != in {
							uses = true
						}
					}
				}
			}
			if !uses {
				return
			}
			switch x := in.(type) {
			case *ssa.MapUpdate:
				// put into a local map that is serialised on the spot (the body of an HTTP action): bytes keep no
				// reference to the event
				if mm, ok := x.Map.(*ssa.MakeMap); ok && x.Value == ssa.Value(bs) || func() bool {
					mi, ok := x.Value.(*ssa.MakeInterface)
					return ok && valueIs(mi.X, bs)
				}() {
					if mm == nil {
						mm, _ = x.Map.(*ssa.MakeMap)
					}
					if mm != nil && serialisedOnly(mm) {
						return
					}
				}
			case *ssa.MakeClosure:
				return // captured for later
			case *ssa.UnOp:
				return // a load of the spilled parameter: what consumes the loaded value is judged
			case *ssa.Store:
				if _, isAlloc := x.Addr.(*ssa.Alloc); isAlloc && x.Val == ssa.Value(bs) {
					return // spilled into the variable that the closure captures
				}
			case *ssa.DebugRef:
				return
			case ssa.CallInstruction:
				c := x.Common()
				callees := []*ssa.Function{}
				if f := c.StaticCallee(); f != nil {
					callees = append(callees, f)
				} else {
					callees = w.Callees(x)
				}
				all := len(callees) > 0
				for _, f := range callees {
					if !builders[f] {
						all = false
					}
				}
				if all {
					return // handed on to another builder
				}
				if c.IsInvoke() && c.Method.Name() == "GetThunk" {
					return // handed on to an ActionInterpreter (also those registered from outside rulio)
				}
				// logging takes it as a value to print: that reads it, but nothing is kept; SubstituteBindings
				// returns a string
				if f := c.StaticCallee(); f != nil && (f == w.Func("core", "Log") || f == w.TryFunc("core", "SubstituteBindings")) {
					return
				}
			case *ssa.MakeInterface:
				// boxed for a log call, or for a map that is serialised on the spot?
				if refs := x.Referrers(); refs != nil {
					allSer := len(*refs) > 0
					for _, ref := range *refs {
						mu, ok := ref.(*ssa.MapUpdate)
						if !ok {
							allSer = false
							break
						}
						mm, ok := mu.Map.(*ssa.MakeMap)
						if !ok || !serialisedOnly(mm) {
							allSer = false
						}
					}
					if allSer {
						return
					}
				}
				onlyLog := true
				if refs := x.Referrers(); refs != nil {
					for _, ref := range *refs {
						if st, ok := ref.(*ssa.Store); ok {
							_ = st
							continue
						}
						onlyLog = false
					}
				}
				if onlyLog {
					return
				}
			}
			bad = in
		})
		if bad != nil {
			r.violation("THUNK-LAZY", key, w.PosOf(bad), "the thunk builder looks into the bindings before the thunk runs: what it keeps still refers to the event map that all actions of the event share (ExecAction copies the event only afterwards)")
		} else {
			r.ok("THUNK-LAZY", key, w.Pos(fn.Pos()), "the bindings are only captured / handed on")
		}
	}
}

// VALUES-OWN-DISP (C04): a value is reported for the node that produced it, under that node's own disposition.
func ruleValuesOwnDisp(w *World, r *Report) {
	r.Rule("VALUES-OWN-DISP", "in WorkWalk every append of an action node's Value to FindRules.Values is control-dependent on a test of the Disposition of that same node (the same SSA value is the base of both field reads): `values` reports exactly the executions that completed; a test of another node's disposition (the condition node is always complete at that point) reports failed actions as values", 2)
	ww := w.Method("core", "Location", "WorkWalk")
	n := 0
	withAnon(ww, func(fn *ssa.Function) {
		allInstrs(fn, func(in ssa.Instruction) {
			c, ok := isBuiltinCall(in, "append")
			if !ok {
				return
			}
			for _, e := range appendedElems(c) {
				nm, f, base, ok := loadedField(e)
				if !ok || typeKey(nm) != "core.ExecRuleAction" || f != "Value" {
					continue
				}
				n++
				key := "fn=" + fname(fn) + " append#" + itoa(n)
				own := func(v ssa.Value) bool {
					n2, f2, b2, ok := loadedField(v)
					return ok && typeKey(n2) == "core.ExecRuleAction" && f2 == "Disposition" && canonValue(b2) == canonValue(base)
				}
				if controlDependsOn(fn, in, own) {
					r.ok("VALUES-OWN-DISP", key, w.PosOf(in), "under a test of the same node's disposition")
				} else {
					r.violation("VALUES-OWN-DISP", "fn="+fname(fn), w.PosOf(in), "an action's value is appended to `values` without a test of that action's own disposition")
				}
			}
		})
	})
	if n == 0 {
		r.exempt("VALUES-OWN-DISP", "fn="+fname(ww), w.Pos(ww.Pos()), "WorkWalk does not append action values directly: shape not recognised, not decided")
	}
}

// serialisedOnly: the locally made map is only filled, boxed and handed to json.Marshal / a log call: it is
// neither captured by a closure, nor returned, nor stored anywhere.
func serialisedOnly(mm *ssa.MakeMap) bool {
	refs := mm.Referrers()
	if refs == nil {
		return false
	}
	marshalled := false
	var ok func(refs []ssa.Instruction, depth int) bool
	ok = func(refs []ssa.Instruction, depth int) bool {
		if depth > 4 {
			return false
		}
		for _, ref := range refs {
			switch y := ref.(type) {
			case *ssa.MapUpdate, *ssa.Lookup, *ssa.DebugRef:
			case *ssa.MakeInterface:
				if r2 := y.Referrers(); r2 != nil && !ok(*r2, depth+1) {
					return false
				}
			case *ssa.ChangeType:
				if r2 := y.Referrers(); r2 != nil && !ok(*r2, depth+1) {
					return false
				}
			case *ssa.Store:
				// a varargs slot of a log call
				if _, isIdx := y.Addr.(*ssa.IndexAddr); !isIdx {
					return false
				}
			case *ssa.Call:
				f := y.Common().StaticCallee()
				if f == nil || f.Pkg == nil {
					return false
				}
				if f.Pkg.Pkg.Path() == "encoding/json" && f.Name() == "Marshal" {
					marshalled = true
				} else if !(f.Pkg.Pkg.Path() == modPath+"/core" && f.Name() == "Log") {
					return false
				}
			default:
				return false
			}
		}
		return true
	}
	return ok(*refs, 0) && marshalled
}

// EXP-TTL-CONSUMED (C07): a relative ttl is turned into the absolute instant once.
func ruleExpTtlConsumed(w *World, r *Report) {
	r.Rule("EXP-TTL-CONSUMED", "setExpires turns a `ttl` into the absolute `expires` and removes the `ttl` from the fact on every path on which it accepts the fact (with the `no ttl given` edge deleted, every success return lies behind delete(fact, \"ttl\")): what is stored carries only the absolute instant.  A record that keeps its ttl is re-prepared when the location is reloaded, and its expiry moves to reload time plus ttl", 1)
	fn := w.Func("core", "setExpires")
	var fact *ssa.Parameter
	for _, p := range fn.Params {
		if _, ok := p.Type().Underlying().(*types.Map); ok {
			fact = p
		}
	}
	key := "fn=" + fname(fn)
	if fact == nil {
		undecided("EXP-TTL-CONSUMED: setExpires has no map parameter")
	}
	var lk *ssa.Lookup
	allInstrs(fn, func(in ssa.Instruction) {
		if l, ok := in.(*ssa.Lookup); ok && valueIs(l.X, fact) && l.CommaOk {
			if k, ok := constKey(l.Index); ok && k == "ttl" && lk == nil {
				lk = l
			}
		}
	})
	if lk == nil {
		r.exempt("EXP-TTL-CONSUMED", key, w.Pos(fn.Pos()), "setExpires does not look `ttl` up with a comma-ok test: shape not recognised, not decided")
		return
	}
	del := map[bedge]bool{}
	for _, b := range fn.Blocks {
		if len(b.Instrs) == 0 {
			continue
		}
		ifi, ok := b.Instrs[len(b.Instrs)-1].(*ssa.If)
		if !ok {
			continue
		}
		ct, ok := decodeIf(ifi)
		if !ok {
			continue
		}
		if ex, ok := ct.V.(*ssa.Extract); ok && ex.Tuple == ssa.Value(lk) && ex.Index == 1 {
			if ct.TrueWhen == "true" {
				del[bedge{b, 1}] = true
			} else if ct.TrueWhen == "false" {
				del[bedge{b, 0}] = true
			}
		}
	}
	if len(del) == 0 {
		r.exempt("EXP-TTL-CONSUMED", key, w.PosOf(lk), "the result of the ttl lookup is not branched on: shape not recognised, not decided")
		return
	}
	isDel := func(in ssa.Instruction) bool {
		// a plain or a deferred delete(fact, "ttl") (a deferred one runs on every return that follows it)
		c := callOf(in)
		if c == nil {
			return false
		}
		bi, ok := c.Value.(*ssa.Builtin)
		if !ok || bi.Name() != "delete" || len(c.Args) != 2 || !valueIs(c.Args[0], fact) {
			return false
		}
		k, ok := constKey(c.Args[1])
		return ok && k == "ttl"
	}
	if h, path := reach(fn, lk, func(in ssa.Instruction) bool { return isSuccessReturnPS(in) }, isDel, edgeFilterOf(del)); h != nil {
		r.violation("EXP-TTL-CONSUMED", key, w.PosOf(h), "a fact given with a ttl can be accepted with the ttl still in it: the stored record keeps the relative ttl next to the absolute expiry and gets a new expiry on every reload", blockPathString(w, path)...)
		return
	}
	r.ok("EXP-TTL-CONSUMED", key, w.PosOf(lk), "the ttl is removed on every accepting path")
}

// PARENTS-VALUE (C09, C06): what setParents stores is the location's own, and is a list even when it is empty.
func ruleParentsValue(prop string) ruleFn {
	return func(w *World, r *Report) {
		r.Rule("PARENTS-VALUE", "the value Location.setParents stores as the `parents` property is (a) built in that call — it does not alias the caller's slice, which the caller may reuse for another location or write to later, silently changing this location's parent set in memory but not in storage — and (b) a slice made with make() on every path, never a possibly-nil slice: JSON stores a nil slice as null, and a reloaded location then fails every inherited search with `didn't expect parents <nil>`", 1)
		fn := w.Method("core", "Location", "setParents")
		setProp := w.Func("core", "SetProp")
		var parents *ssa.Parameter
		for _, p := range fn.Params {
			if _, ok := p.Type().Underlying().(*types.Slice); ok {
				parents = p
			}
		}
		key := "fn=" + fname(fn)
		var val ssa.Value
		var site ssa.Instruction
		allInstrs(fn, func(in ssa.Instruction) {
			c := callOf(in)
			if c == nil || c.StaticCallee() != setProp || len(c.Args) == 0 {
				return
			}
			val = c.Args[len(c.Args)-1]
			site = in
		})
		if val == nil || parents == nil {
			r.exempt("PARENTS-VALUE", key, w.Pos(fn.Pos()), "setParents does not call core.SetProp directly: shape not recognised, not decided")
			return
		}
		if mi, ok := val.(*ssa.MakeInterface); ok {
			val = mi.X
		}
		if rootsAtDeep(val, parents, 0) {
			r.violation("PARENTS-VALUE", key, w.PosOf(site), "the stored parents value aliases the caller's slice")
			return
		}
		// every way the value can come about is a make()
		visiting := map[ssa.Value]bool{}
		var allMade func(v ssa.Value, d int) (bool, bool)
		allMade = func(v ssa.Value, d int) (made bool, known bool) {
			if d > 12 {
				return false, false
			}
			if visiting[v] {
				return true, true // a loop-carried value: decided by its other edges
			}
			visiting[v] = true
			defer delete(visiting, v)
			switch x := v.(type) {
			case *ssa.MakeSlice:
				return true, true
			case *ssa.Slice:
				if _, ok := x.X.(*ssa.Alloc); ok {
					return true, true // make with a constant size
				}
				return allMade(x.X, d+1)
			case *ssa.Const:
				return false, true // the nil slice
			case *ssa.Phi:
				for _, e := range x.Edges {
					if e == v {
						continue
					}
					m, k := allMade(e, d+1)
					if !k {
						return false, false
					}
					if !m {
						return false, true
					}
				}
				return true, true
			case *ssa.Call:
				if b, ok := x.Common().Value.(*ssa.Builtin); ok && b.Name() == "append" && len(x.Call.Args) > 0 {
					return allMade(x.Call.Args[0], d+1)
				}
			case *ssa.UnOp:
				if a, ok := x.X.(*ssa.Alloc); ok {
					n := 0
					for _, ref := range *a.Referrers() {
						if st, ok := ref.(*ssa.Store); ok && st.Addr == ssa.Value(a) {
							n++
							m, k := allMade(st.Val, d+1)
							if !k {
								return false, false
							}
							if !m {
								return false, true
							}
						}
					}
					if n == 0 {
						return false, true // zero value
					}
					return true, true
				}
			}
			return false, false
		}
		made, known := allMade(val, 0)
		switch {
		case !known:
			r.exempt("PARENTS-VALUE", key, w.PosOf(site), "how the stored value is built is not recognised: the nil-ness clause is not decided (no alias of the parameter)")
		case !made:
			r.violation("PARENTS-VALUE", key, w.PosOf(site), "the stored parents value can be a nil slice (for an empty parent list): it is persisted as JSON null and the reloaded location cannot read its parents")
		default:
			r.ok("PARENTS-VALUE", key, w.PosOf(site), "a slice made in this call on every path")
		}
	}
}

// boltErrExemptions: call sites (function + callee) where dropping a bolt error is accepted, with the reason.
var boltErrExemptions = map[string]string{
	"BOLT-ERR|fn=crolt.main call=(*github.com/boltdb/bolt.DB).Close": "deferred Close of the database when the command exits: nothing is acknowledged to anybody at that point",
}

// CRON-REARM (C15, C16): after the cron's timer fired, it is armed again as long as jobs are pending.
func ruleCronRearm(prop string) ruleFn {
	return func(w *World, r *Report) {
		r.Rule("CRON-REARM", "in the in-memory cron's loop, after the timer fired and while the timeline is not empty (the `len(Timeline) == 0` edge deleted), every path back to the select passes resetTimer: the timer is armed for the head of the timeline whenever something is pending.  The timer is set for the job that was the head when it was armed; if that job is removed before it is due, the timer fires, finds a head that is not due yet, and — if it is only re-armed after running a job — never fires again: every pending job of every location waits until somebody schedules something", 1)
		fn := w.Method("cron", "Cron", "start")
		key := "fn=" + fname(fn)
		var sel *ssa.Select
		allInstrs(fn, func(in ssa.Instruction) {
			if s, ok := in.(*ssa.Select); ok && sel == nil {
				sel = s
			}
		})
		if sel == nil {
			r.exempt("CRON-REARM", key, w.Pos(fn.Pos()), "the cron loop has no select: shape not recognised, not decided")
			return
		}
		isTimerField := func(v ssa.Value) bool {
			n, f, _, ok := loadedField(v)
			return ok && typeKey(n) == "cron.Cron" && f == "timer"
		}
		k := -1
		for i, st := range sel.States {
			if st.Dir == types.RecvOnly && dependsOn(st.Chan, isTimerField) {
				k = i
			}
		}
		if k < 0 {
			r.exempt("CRON-REARM", key, w.PosOf(sel), "no case of the select receives from the cron's timer: shape not recognised, not decided")
			return
		}
		// the block entered when the select's index equals k
		var entry *ssa.BasicBlock
		for _, b := range fn.Blocks {
			if len(b.Instrs) == 0 {
				continue
			}
			ifi, ok := b.Instrs[len(b.Instrs)-1].(*ssa.If)
			if !ok {
				continue
			}
			bo, ok := ifi.Cond.(*ssa.BinOp)
			if !ok || bo.Op != token.EQL {
				continue
			}
			ex, ok := bo.X.(*ssa.Extract)
			if !ok || ex.Tuple != ssa.Value(sel) || ex.Index != 0 {
				continue
			}
			if c, ok := bo.Y.(*ssa.Const); ok && c.Value != nil && c.Int64() == int64(k) {
				entry = b.Succs[0]
			}
		}
		if entry == nil || len(entry.Instrs) == 0 {
			r.exempt("CRON-REARM", key, w.PosOf(sel), "the timer case of the select was not found: shape not recognised, not decided")
			return
		}
		isTimeline := func(v ssa.Value) bool {
			n, f, _, ok := loadedField(v)
			return ok && typeKey(n) == "cron.Cron" && f == "Timeline"
		}
		del := map[bedge]bool{}
		nlen := 0
		for _, b := range fn.Blocks {
			if x, ne, ok := lenEdge(b); ok && dependsOn(x, isTimeline) {
				nlen++
				del[bedge{b, 1 - ne}] = true // the empty edge
			}
		}
		isReset := func(in ssa.Instruction) bool {
			c := callOf(in)
			if c == nil {
				return false
			}
			f := c.StaticCallee()
			return f != nil && (f == w.TryMethod("cron", "Cron", "resetTimer") || f == w.TryMethod("cron", "Cron", "resetTimerLocked"))
		}
		first := entry.Instrs[0]
		target := func(in ssa.Instruction) bool { return in == ssa.Instruction(sel) }
		// start from the instruction before `first`: use the If that leads here
		var from ssa.Instruction
		for _, p := range entry.Preds {
			from = p.Instrs[len(p.Instrs)-1]
		}
		_ = first
		ef := func(b *ssa.BasicBlock, si int) bool {
			if del[bedge{b, si}] {
				return false
			}
			// from the dispatching If only the edge into the timer case is followed
			if from != nil && b == from.Block() {
				return b.Succs[si] == entry
			}
			return true
		}
		if nlen == 0 {
			r.exempt("CRON-REARM", key, w.PosOf(sel), "the timer case does not test the length of the timeline: shape not recognised, not decided")
			return
		}
		if h, path := reach(fn, from, target, isReset, ef); h != nil {
			r.violation("CRON-REARM", key, w.Pos(entry.Instrs[0].Pos()), "after the timer fired with jobs still pending, the loop can go back to waiting without arming the timer again (the head was not due: the job the timer was set for has been removed)", blockPathString(w, path)...)
			return
		}
		r.ok("CRON-REARM", key, w.PosOf(sel), "re-armed on every path on which jobs are pending")
	}
}

// DECODE-DEP (C04): what is executed is the action's code.
func ruleDecodeDep(w *World, r *Report) {
	r.Rule("DECODE-DEP", "the code an action executes is a function of the action's code: every success return of core.DecodeString (the decoding step of Action.GetStringCode) returns a value that data-depends on its `code` parameter, and GetStringCode returns the code or that decoding of it.  A return that depends only on the name of the encoding executes something else than the rule's action", 2)
	fn := w.Func("core", "DecodeString")
	var code *ssa.Parameter
	for _, p := range fn.Params {
		if p.Name() == "code" {
			code = p
		}
	}
	if code == nil && len(fn.Params) == 2 {
		code = fn.Params[1]
	}
	key := "fn=" + fname(fn)
	if code == nil {
		r.exempt("DECODE-DEP", key, w.Pos(fn.Pos()), "no code parameter: shape not recognised, not decided")
	} else {
		bad := false
		allInstrs(fn, func(in ssa.Instruction) {
			ret, ok := in.(*ssa.Return)
			if !ok || bad || !isSuccessReturnPS(in) || len(ret.Results) == 0 {
				return
			}
			if !dependsOn(resolveSpill(ret.Results[0]), func(v ssa.Value) bool { return v == ssa.Value(code) }) {
				r.violation("DECODE-DEP", key, w.PosOf(in), "this success return of DecodeString does not depend on the code it was given: an action with this encoding executes something else than its code")
				bad = true
			}
		})
		if !bad {
			r.ok("DECODE-DEP", key, w.Pos(fn.Pos()), "every success return depends on the code")
		}
	}
	gs := w.Method("core", "Action", "GetStringCode")
	key = "fn=" + fname(gs)
	isCodeSrc := func(v ssa.Value) bool {
		n, f, _, ok := loadedField(v)
		return ok && typeKey(n) == "core.Action" && f == "Code"
	}
	bad := false
	allInstrs(gs, func(in ssa.Instruction) {
		ret, ok := in.(*ssa.Return)
		if !ok || bad || !isSuccessReturnPS(in) || len(ret.Results) == 0 {
			return
		}
		if !dependsOn(resolveSpill(ret.Results[0]), isCodeSrc) {
			r.violation("DECODE-DEP", key, w.PosOf(in), "this success return of GetStringCode does not depend on the action's Code")
			bad = true
		}
	})
	if !bad {
		r.ok("DECODE-DEP", key, w.Pos(gs.Pos()), "every success return depends on the action's Code")
	}
}

// TIMELINE-ORDER (C15, C16): the binary-searched timeline stays sorted.
func ruleTimelineOrder(prop string) ruleFn {
	return func(w *World, r *Report) {
		r.Rule("TIMELINE-ORDER", "the in-memory cron finds insertion points in its timeline by binary search and always runs the head (premise, checked: a function of package cron calls sort.Search over the timeline); therefore no function moves a single element of the timeline to another index (a store into an element of the timeline whose value was loaded from an element of the timeline): removal shifts the tail down with copy / append.  A swap-remove puts a job due in an hour ahead of jobs due in seconds, which then miss their ticks", 1)
		tl := w.TryNamed("cron", "Timeline")
		if tl == nil {
			r.exempt("TIMELINE-ORDER", "type=cron.Timeline", "", "no Timeline type: shape not recognised, not decided")
			return
		}
		// premise
		searched := false
		for _, fn := range w.Funcs {
			if w.RelPkg(fn) != "cron" || isTestFile(w, fn) {
				continue
			}
			allInstrs(fn, func(in ssa.Instruction) {
				if c := callOf(in); c != nil {
					if f := c.StaticCallee(); f != nil && f.Pkg != nil && f.Pkg.Pkg.Path() == "sort" && f.Name() == "Search" {
						searched = true
					}
				}
			})
		}
		if !searched {
			r.exempt("TIMELINE-ORDER", "type=cron.Timeline", w.Pos(tl.Obj().Pos()), "premise fails: the timeline is not binary-searched any more; not decided by this rule")
			return
		}
		isTL := func(t types.Type) bool { return types.Identical(t, tl) }
		n := 0
		for _, fn := range w.Funcs {
			if w.RelPkg(fn) != "cron" || isTestFile(w, fn) || fn.Synthetic != "" {
				continue
			}
			if fn.Name() == "Swap" && fn.Signature.Recv() != nil && isTL(fn.Signature.Recv().Type()) {
				continue // sort.Interface: used by sort.Sort, which establishes the order
			}
			allInstrs(fn, func(in ssa.Instruction) {
				st, ok := in.(*ssa.Store)
				if !ok {
					return
				}
				ia, ok := st.Addr.(*ssa.IndexAddr)
				if !ok || !isTL(ia.X.Type()) {
					return
				}
				n++
				key := "fn=" + fname(fn)
				// value loaded from an element of a timeline?
				moved := false
				if ld, ok := st.Val.(*ssa.UnOp); ok && ld.Op == token.MUL {
					if ia2, ok := ld.X.(*ssa.IndexAddr); ok && isTL(ia2.X.Type()) {
						moved = true
					}
				}
				if moved {
					r.violation("TIMELINE-ORDER", key, w.PosOf(in), "an element of the timeline is moved to another index on its own: the timeline is no longer sorted by due time")
				} else {
					r.ok("TIMELINE-ORDER", key, w.PosOf(in), "stores a new job (or nil) into the timeline, does not move an element")
				}
			})
		}
		if n == 0 {
			r.ok("TIMELINE-ORDER", "scope=package cron", "", "no element-wise store into the timeline")
		}
	}
}

// COPY-EMPTY (C01, C09): a copy into a slice of length zero copies nothing.
func ruleCopyEmpty(prop string) ruleFn {
	return func(w *World, r *Report) {
		r.Rule("COPY-EMPTY", "no copy(dst, src) has a destination that was made with length 0 (`make([]T, 0, n)` has capacity, not length): such a copy is a no-op, and what looks like a defensive copy of a location's parents (or of any list) is an empty list — the location silently loses its parents until it is reloaded (expected matches: none; examples in rulint/fixtures/patterns are matched on every run)", 2)
		match := func(fn *ssa.Function) int { return len(findCopyIntoEmpty(fn)) }
		selfTest(r, "COPY-EMPTY", match, []string{"CopyIntoEmpty"}, []string{"CopyOK"})
		n := 0
		for _, fn := range w.Funcs {
			if isTestFile(w, fn) || fn.Synthetic != "" {
				continue
			}
			allInstrs(fn, func(in ssa.Instruction) {
				if _, ok := isBuiltinCall(in, "copy"); ok {
					n++
				}
			})
			for _, in := range findCopyIntoEmpty(fn) {
				r.violation("COPY-EMPTY", "fn="+fname(fn), w.PosOf(in), "the destination of this copy has length 0: nothing is copied")
			}
		}
		r.ok("COPY-EMPTY", "scope=all rulio functions", "", fmt.Sprintf("%d copy calls scanned", n))
	}
}

// TERM-FILTER (C02, C08): one filter decides which strings are terms.
func ruleTermFilter(prop string) ruleFn {
	return func(w *World, r *Report) {
		r.Rule("TERM-FILTER", "in the term extractor every string that is added to the term set passes the extractor's own filter: each call that adds to the set (StringSet.Add / AddStrings / AddAll) is control-dependent on a test of IsVariable of the added string (variables are not terms) and, if any of them is, on the comparison of its length with SystemParameters.StringLengthTermLimit — the same function produces the terms of stored facts and of search patterns, so a string that one container kind lets through unfiltered becomes a pattern term that no stored fact is indexed under (the deleteWith cascade searches with a []string, stored facts carry []interface{})", 1)
		fn := w.Func("core", "extractTermsAux")
		isVar := w.Func("core", "IsVariable")
		n := 0
		type site struct {
			in      ssa.Instruction
			key     string
			isVar   bool
			limited bool
		}
		var sites []site
		allInstrs(fn, func(in ssa.Instruction) {
			c := callOf(in)
			if c == nil {
				return
			}
			f := c.StaticCallee()
			if f == nil || f.Signature.Recv() == nil || !isNamed(f.Signature.Recv().Type(), modPath+"/core", "StringSet") {
				return
			}
			switch f.Name() {
			case "Add", "AddStrings", "AddAll":
			default:
				return
			}
			n++
			key := "fn=" + fname(fn) + " " + f.Name() + "#" + itoa(n)
			// the added value(s)
			var added []ssa.Value
			for _, a := range c.Args[1:] {
				added = append(added, a)
			}
			isAdded := func(v ssa.Value) bool {
				for _, a := range added {
					if sameValue(v, a) || dependsOn(a, func(x ssa.Value) bool { return x == v }) {
						return true
					}
				}
				return false
			}
			guarded := controlDependsOn(fn, in, func(v ssa.Value) bool {
				call, ok := v.(*ssa.Call)
				if !ok || call.Common().StaticCallee() != isVar || len(call.Call.Args) == 0 {
					return false
				}
				return isAdded(call.Call.Args[0])
			})
			// the length limit: a comparison of len(added string) with SystemParameters.StringLengthTermLimit
			limited := controlDependsOn(fn, in, func(v ssa.Value) bool {
				bo, ok := v.(*ssa.BinOp)
				if !ok {
					return false
				}
				switch bo.Op {
				case token.LSS, token.LEQ, token.GTR, token.GEQ:
				default:
					return false
				}
				isLen := func(x ssa.Value) bool {
					return dependsOn(x, func(y ssa.Value) bool {
						lc, ok := y.(*ssa.Call)
						if !ok {
							return false
						}
						b, isB := lc.Common().Value.(*ssa.Builtin)
						return isB && b.Name() == "len" && len(lc.Common().Args) == 1 && isAdded(lc.Common().Args[0])
					})
				}
				isLimit := func(x ssa.Value) bool {
					return dependsOn(x, func(y ssa.Value) bool {
						_, f, _, ok := loadedField(y)
						return ok && f == "StringLengthTermLimit"
					})
				}
				return (isLen(bo.X) && isLimit(bo.Y)) || (isLen(bo.Y) && isLimit(bo.X))
			})
			sites = append(sites, site{in, key, guarded, limited})
		})
		anyLimited := false
		for _, st := range sites {
			if st.limited {
				anyLimited = true
			}
		}
		for _, st := range sites {
			switch {
			case !st.isVar:
				r.violation("TERM-FILTER", "fn="+fname(fn), w.PosOf(st.in), "strings are added to the term set without passing the extractor's filter (variables, over-long strings): patterns and stored facts no longer yield the same terms")
			case anyLimited && !st.limited:
				r.violation("TERM-FILTER", "fn="+fname(fn), w.PosOf(st.in), "strings are added to the term set here without the length limit (StringLengthTermLimit) that the extractor applies elsewhere: a pattern holding a long string in this kind of container (the deleteWith cascade's []string) asks the index for a term no stored fact was filed under")
			default:
				r.ok("TERM-FILTER", st.key, w.PosOf(st.in), "under the IsVariable test of the added string (and the length limit, where the extractor has one)")
			}
		}
		if n == 0 {
			r.exempt("TERM-FILTER", "fn="+fname(fn), w.Pos(fn.Pos()), "the extractor does not add to a StringSet directly: shape not recognised, not decided")
		}
	}
}

// STORE-BEFORE-MEM (C06, C10): an add that storage refused leaves no trace in memory.
func ruleStoreBeforeMem(prop string) ruleFn {
	return func(w *World, r *Report) {
		r.Rule("STORE-BEFORE-MEM", "in every State implementation's Add, the fact enters the in-memory fact map (directly or through a callee of the same type) only after Storage.Add succeeded, or — where memory is written first — every path from a failed Storage.Add to the return removes it again: otherwise an add (a rule, an overwrite, a `disabled` flag) whose storage write failed is reported as failed but is live in memory, and is gone again after a reload", 2)
		a := newLocAnchors(w)
		for n := range a.stateImp {
			owner := typeKey(n)
			ff := stateFactField[owner]
			add := w.TryMethod(typeRel(n), n.Obj().Name(), "Add")
			if ff == "" || add == nil {
				continue
			}
			isInsert := func(in ssa.Instruction) bool {
				mu, ok := in.(*ssa.MapUpdate)
				return ok && isFieldLoad(mu.Map, owner, ff)
			}
			isRemoveMem := func(in ssa.Instruction) bool {
				c, ok := isBuiltinCall(in, "delete")
				return ok && len(c.Call.Args) == 2 && isFieldLoad(c.Call.Args[0], owner, ff)
			}
			isStoreAdd := func(in ssa.Instruction) bool {
				d, ok := isStorageMutation(w, in)
				return ok && strings.HasSuffix(d, "Add")
			}
			// transitive summaries over the methods of the type
			ins, rmv, sto := map[*ssa.Function]bool{}, map[*ssa.Function]bool{}, map[*ssa.Function]bool{}
			methods := w.MethodsOf(n)
			for changed := true; changed; {
				changed = false
				for _, fn := range methods {
					allInstrs(fn, func(in ssa.Instruction) {
						set := func(m map[*ssa.Function]bool) {
							if !m[fn] {
								m[fn], changed = true, true
							}
						}
						if isInsert(in) {
							set(ins)
						}
						if isRemoveMem(in) {
							set(rmv)
						}
						if isStoreAdd(in) {
							set(sto)
						}
						if c := callOf(in); c != nil {
							if f := c.StaticCallee(); f != nil && f != fn {
								if o2, ok := stateOwnerOf(a, f); ok && o2 == owner {
									if ins[f] {
										set(ins)
									}
									if rmv[f] {
										set(rmv)
									}
									if sto[f] {
										set(sto)
									}
								}
							}
						}
					})
				}
			}
			via := func(m map[*ssa.Function]bool, direct func(ssa.Instruction) bool) func(ssa.Instruction) bool {
				return func(in ssa.Instruction) bool {
					if _, isDefer := in.(*ssa.Defer); isDefer {
						return false
					}
					if direct(in) {
						return true
					}
					if c := callOf(in); c != nil {
						if f := c.StaticCallee(); f != nil && f != add {
							if o2, ok := stateOwnerOf(a, f); ok && o2 == owner && m[f] {
								return true
							}
						}
					}
					return false
				}
			}
			memIns := via(ins, isInsert)
			memRem := via(rmv, isRemoveMem)
			// the storage write of Add itself (not one buried in the callee that also writes memory)
			var stores []ssa.Instruction
			allInstrs(add, func(in ssa.Instruction) {
				if isStoreAdd(in) {
					stores = append(stores, in)
				}
			})
			key := "fn=" + fname(add)
			if len(stores) == 0 {
				r.exempt("STORE-BEFORE-MEM", key, w.Pos(add.Pos()), "Add does not call Storage.Add itself: shape not recognised, not decided")
				continue
			}
			bad := false
			for _, s := range stores {
				// can a memory insert precede this storage write?
				memFirst, _ := reach(add, nil, func(x ssa.Instruction) bool { return x == s }, nil, nil)
				_ = memFirst
				pre := false
				allInstrs(add, func(x ssa.Instruction) {
					if memIns(x) && reachable(add, x, s) {
						pre = true
					}
				})
				if !pre {
					continue
				}
				// then every error return after the storage write must pass a removal from memory
				isErrRet := func(x ssa.Instruction) bool {
					_, isRet := x.(*ssa.Return)
					return isRet && !isSuccessReturnPS(x)
				}
				if h, _ := reach(add, s, isErrRet, memRem, nil); h != nil {
					r.violation("STORE-BEFORE-MEM", key, w.PosOf(s), "the fact is in the fact map before Storage.Add is called, and a failed Storage.Add returns (at "+w.PosOf(h)+") without taking it out again: an add that was refused is live in memory")
					bad = true
				}
			}
			if !bad {
				r.ok("STORE-BEFORE-MEM", key, w.PosOf(stores[0]), "memory is written after the storage write succeeded (or rolled back)")
			}
		}
	}
}

// CACHE-EVICT (C12, C17, C11): an entry leaves the location-cache table only through the cache's own protocol.
var cacheEvictors = map[string]string{
	"(*sys.CachedLocations).expire": "the cache's expiry: under the table lock, only for an entry that is not in use and whose TTL has passed",
	"(*sys.CachedLocation).Get":     "clean-up after a failed open",
}

func ruleCacheEvict(prop string) ruleFn {
	return func(w *World, r *Report) {
		r.Rule("CACHE-EVICT", "who-may-delete and how: entries are deleted from the location-cache table only by the cache's expiry and by the clean-up after a failed open (a table of named functions); the clean-up, which runs after the entry lock was released, deletes only under a re-check made while it holds the table lock — the entry has no location (read after the table lock was taken) — because a concurrent request can meanwhile have loaded the location through the same entry.  Evicting an entry that is in use lets the next request load a second instance: two instances of one location, each with its own lock and memory", 2)
		isLocs := func(v ssa.Value) bool {
			n, f, _, ok := loadedField(v)
			return ok && typeKey(n) == "sys.CachedLocations" && f == "locs"
		}
		n := 0
		for _, fn := range w.Funcs {
			if isTestFile(w, fn) || fn.Synthetic != "" {
				continue
			}
			allInstrs(fn, func(in ssa.Instruction) {
				c, ok := isBuiltinCall(in, "delete")
				if !ok || len(c.Call.Args) != 2 || !isLocs(c.Call.Args[0]) {
					return
				}
				n++
				name := fname(outermost(fn))
				key := "deleter=" + name
				if _, ok := cacheEvictors[name]; !ok {
					r.violation("CACHE-EVICT", key, w.PosOf(in), "this function deletes an entry from the location-cache table outside the cache's protocol: requests that hold the instance keep working on it while later requests load a second one")
					return
				}
				if name != "(*sys.CachedLocation).Get" {
					r.ok("CACHE-EVICT", key, w.PosOf(in), cacheEvictors[name])
					return
				}
				// the clean-up: guarded by a nil test of the entry's Location that was read after the table lock was taken
				var tableLock ssa.Instruction
				allInstrs(fn, func(x ssa.Instruction) {
					cc := callOf(x)
					if cc == nil || tableLock != nil {
						return
					}
					if f := cc.StaticCallee(); f != nil && f.Name() == "Lock" && len(cc.Args) > 0 {
						if fa, ok := cc.Args[0].(*ssa.FieldAddr); ok {
							if nm, _, _, ok := fieldOf(fa); ok && typeKey(nm) == "sys.CachedLocations" && reachable(fn, x, in) {
								tableLock = x
							}
						}
					}
				})
				rechecked := false
				if tableLock != nil {
					rechecked = controlDependsOn(fn, in, func(v ssa.Value) bool {
						nm, f, _, ok := loadedField(v)
						if !ok || typeKey(nm) != "sys.CachedLocation" || f != "Location" {
							return false
						}
						ld, ok := v.(ssa.Instruction)
						return ok && instrDominates(tableLock, ld)
					})
				}
				if rechecked {
					r.ok("CACHE-EVICT", key, w.PosOf(in), "deletes only if the entry still has no location, read under the table lock")
				} else {
					r.violation("CACHE-EVICT", key, w.PosOf(in), "the clean-up after a failed open deletes the table entry on the strength of what it saw before it released the entry lock: a concurrent request may have loaded the location through the same entry since, and is evicted while it uses it")
				}
			})
		}
		if n == 0 {
			r.exempt("CACHE-EVICT", "table=sys.CachedLocations.locs", "", "nothing deletes from the cache table: shape not recognised, not decided")
		}
	}
}

// REM-STORE-FIRST (C06, C08): a removal that storage refused can be retried.
func ruleRemStoreFirst(prop string) ruleFn {
	return func(w *World, r *Report) {
		r.Rule("REM-STORE-FIRST", "in every State implementation's removal primitive (the function that deletes an id from the fact map) the record is removed from storage before it is forgotten in memory: a removal whose storage write fails then leaves memory and storage agreeing, and a retry finds the fact and reaches storage again.  If memory forgets first, the retry sees `not found`, skips the storage removal, and the fact comes back with the next reload", 2)
		a := newLocAnchors(w)
		for n := range a.stateImp {
			owner := typeKey(n)
			ff := stateFactField[owner]
			if ff == "" {
				continue
			}
			_, deleters := factMapHelpers(w, a, owner)
			for _, fn := range w.MethodsOf(n) {
				if _, isHelper := deleters[fn]; isHelper {
					continue
				}
				var dels, stos []ssa.Instruction
				allInstrs(fn, func(in ssa.Instruction) {
					if c, ok := isBuiltinCall(in, "delete"); ok && len(c.Call.Args) == 2 && isFieldLoad(c.Call.Args[0], owner, ff) {
						dels = append(dels, in)
					}
					if c := callOf(in); c != nil && c.StaticCallee() != nil {
						if _, isHelper := deleters[c.StaticCallee()]; isHelper {
							dels = append(dels, in) // `drop(id)`: forgets for its caller
						}
					}
					if d, ok := isStorageMutation(w, in); ok && strings.HasSuffix(d, "Remove") {
						stos = append(stos, in)
					}
				})
				if len(dels) == 0 || len(stos) == 0 {
					continue
				}
				key := "fn=" + fname(fn)
				bad := false
				for _, d := range dels {
					for _, s := range stos {
						if reachable(fn, d, s) && !reachable(fn, s, d) {
							r.violation("REM-STORE-FIRST", key, w.PosOf(d), "the fact is deleted from the fact map before Storage.Remove (at "+w.PosOf(s)+") is called: if that call fails, memory has already forgotten the fact and a retry never reaches storage")
							bad = true
						}
					}
				}
				if !bad {
					r.ok("REM-STORE-FIRST", key, w.PosOf(stos[0]), "storage first, then memory")
				}
			}
		}
	}
}

// IDX-ROLLBACK (C01, C06, C10): a replacement that fails leaves the replaced rule dispatchable.
func ruleIdxRollback(prop string) ruleFn {
	return func(w *World, r *Report) {
		r.Rule("IDX-ROLLBACK", "in the IndexedState function that replaces a stored fact (it un-indexes the stored rule and indexes the incoming one), every error return that lies behind the successful un-indexing of the stored rule is preceded by a call that indexes that same stored rule again (edges on which there was no stored event rule deleted): until the new fact is in, the old one is still what is stored under the id, and a refused replacement (a `when` that cannot be indexed, a schedule the cron refuses) must not leave it stored but never dispatched again", 1)
		n := w.Named("core", "IndexedState")
		idx := w.Method("core", "IndexedState", "indexRule")
		unidx := w.Method("core", "IndexedState", "unindexRule")
		prevSrc := func(v ssa.Value) bool {
			return dependsOn(v, func(x ssa.Value) bool {
				lk, ok := x.(*ssa.Lookup)
				return ok && isFieldLoad(lk.X, "core.IndexedState", "IdToFact")
			})
		}
		found := 0
		for _, fn := range w.MethodsOf(n) {
			var us []*ssa.Call
			callsIndex := false
			allInstrs(fn, func(in ssa.Instruction) {
				c, ok := in.(*ssa.Call)
				if !ok {
					return
				}
				if c.Common().StaticCallee() == idx {
					callsIndex = true
				}
				if c.Common().StaticCallee() == unidx && len(c.Call.Args) >= 4 && prevSrc(c.Call.Args[3]) {
					us = append(us, c)
				}
			})
			if len(us) == 0 || !callsIndex {
				continue
			}
			found++
			key := "fn=" + fname(fn)
			del := map[bedge]bool{}
			for _, b := range fn.Blocks {
				if len(b.Instrs) == 0 {
					continue
				}
				ifi, ok := b.Instrs[len(b.Instrs)-1].(*ssa.If)
				if !ok {
					continue
				}
				ct, ok := decodeIf(ifi)
				if !ok {
					continue
				}
				v := resolveSpill(ct.V)
				// the error edge of the un-indexing itself, and the edges on which there is no stored rule to restore
				isU := false
				for _, u := range us {
					if v == ssa.Value(u) {
						isU = true
					}
				}
				switch {
				case isU && ct.TrueWhen == "nonnil":
					del[bedge{b, 0}] = true
				case isU && ct.TrueWhen == "nil":
					del[bedge{b, 1}] = true
				case !isErrorType(v.Type()) && prevSrc(v) && ct.TrueWhen == "nonnil":
					del[bedge{b, 1}] = true
				case !isErrorType(v.Type()) && prevSrc(v) && ct.TrueWhen == "nil":
					del[bedge{b, 0}] = true
				}
			}
			// ... directly, or through a helper of the state that indexes the rule it is given (`reindex(ctx, id, rule, …)`)
			helperRuleArg := func(h *ssa.Function) int {
				if h == nil || h == fn || len(h.Blocks) == 0 {
					return -1
				}
				if rn := namedOf(recvType(h)); rn == nil || typeKey(rn) != "core.IndexedState" {
					return -1
				}
				at := -1
				allInstrs(h, func(x ssa.Instruction) {
					hc := callOf(x)
					if hc == nil || hc.StaticCallee() != idx || len(hc.Args) < 4 {
						return
					}
					for i, p := range h.Params {
						if valueIs(hc.Args[3], p) {
							at = i
						}
					}
				})
				return at
			}
			// ... or through a closure of this function that indexes a variable of it which holds the stored rule
			closureRestores := func(c *ssa.CallCommon) bool {
				mc, ok := c.Value.(*ssa.MakeClosure)
				if !ok {
					return false
				}
				h, _ := mc.Fn.(*ssa.Function)
				if h == nil || h.Parent() != fn {
					return false
				}
				res := false
				allInstrs(h, func(x ssa.Instruction) {
					hc := callOf(x)
					if hc == nil || hc.StaticCallee() != idx || len(hc.Args) < 4 {
						return
					}
					u, isU := hc.Args[3].(*ssa.UnOp)
					if !isU || u.Op != token.MUL {
						return
					}
					fv, isF := u.X.(*ssa.FreeVar)
					if !isF {
						return
					}
					for k, f := range h.FreeVars {
						if f != fv || k >= len(mc.Bindings) {
							continue
						}
						cell := mc.Bindings[k]
						allInstrs(fn, func(y ssa.Instruction) {
							if st, isS := y.(*ssa.Store); isS && st.Addr == cell && prevSrc(st.Val) {
								res = true
							}
						})
					}
				})
				return res
			}
			isRestore := func(in ssa.Instruction) bool {
				c := callOf(in)
				if c == nil {
					return false
				}
				if c.StaticCallee() == idx && len(c.Args) >= 4 && prevSrc(c.Args[3]) {
					return true
				}
				if closureRestores(c) {
					return true
				}
				if i := helperRuleArg(c.StaticCallee()); i >= 0 && i < len(c.Args) && prevSrc(c.Args[i]) {
					return true
				}
				return false
			}
			isErrRet := func(in ssa.Instruction) bool {
				_, ok := in.(*ssa.Return)
				return ok && !isSuccessReturnPS(in)
			}
			bad := false
			for _, u := range us {
				if h, path := reach(fn, u, isErrRet, isRestore, edgeFilterOf(del)); h != nil {
					r.violation("IDX-ROLLBACK", key, w.PosOf(h), "after the stored rule was taken out of the index, the replacement can fail and return without putting it back: the stored rule is never dispatched again", blockPathString(w, path)...)
					bad = true
					break
				}
			}
			if !bad {
				r.ok("IDX-ROLLBACK", key, w.PosOf(us[0]), "every failure behind the un-indexing re-indexes the stored rule")
			}
		}
		if found == 0 {
			r.exempt("IDX-ROLLBACK", "type=core.IndexedState", w.Pos(n.Obj().Pos()), "no function both un-indexes a stored rule and indexes a new one: shape not recognised, not decided")
		}
	}
}

// IDX-ORDER (C01, C04): writer and reader of the pattern trie splice nested pairs in at the same end.
func ruleIdxOrder(prop string) ruleFn {
	return func(w *World, r *Report) {
		r.Rule("IDX-ORDER", "sibling agreement between PatternIndex.mod (writer) and searchPairs (reader): wherever the remaining pairs (`pairs[1:]`) are combined with the pairs of a nested map or array by append, the nested pairs come first and the remaining pairs follow (`append(nested, rest...)`), in both functions: the trie is a sequence of keys, so a reader that walks the nested elements after the later keys looks under nodes the writer never created, and a rule with an array pattern under an earlier key is never a candidate", 4)
		for _, name := range []string{"mod", "searchPairs"} {
			fn := w.Method("core", "PatternIndex", name)
			var pairs *ssa.Parameter
			for _, p := range fn.Params {
				if _, ok := p.Type().Underlying().(*types.Slice); ok {
					pairs = p
				}
			}
			if pairs == nil {
				undecided("IDX-ORDER: %s has no slice parameter", fname(fn))
			}
			isRest := func(v ssa.Value) bool {
				sl, ok := v.(*ssa.Slice)
				if !ok || !valueIs(sl.X, pairs) || sl.Low == nil {
					return false
				}
				c, ok := sl.Low.(*ssa.Const)
				return ok && c.Value != nil && c.Int64() >= 1
			}
			n := 0
			allInstrs(fn, func(in ssa.Instruction) {
				c, ok := isBuiltinCall(in, "append")
				if !ok || len(c.Call.Args) != 2 || !types.Identical(c.Type(), pairs.Type()) {
					return
				}
				// a splice: a variadic append of two pair lists (not the element-wise building of a list)
				if len(appendedElems(c)) > 0 {
					return
				}
				a0, a1 := c.Call.Args[0], c.Call.Args[1]
				r0, r1 := dependsOnFS(a0, isRest), dependsOnFS(a1, isRest)
				if !r0 && !r1 {
					return
				}
				n++
				key := "fn=" + fname(fn) + " splice#" + itoa(n)
				switch {
				case r1 && !r0:
					r.ok("IDX-ORDER", key, w.PosOf(in), "nested pairs first, remaining pairs after")
				case r0 && !r1:
					r.violation("IDX-ORDER", "fn="+fname(fn), w.PosOf(in), "the remaining pairs come first and the nested pairs are appended after them: this walk visits the trie in another order than its sibling")
				default:
					r.exempt("IDX-ORDER", key, w.PosOf(in), "both operands depend on the remaining pairs: not decided")
				}
			})
			if n == 0 {
				r.exempt("IDX-ORDER", "fn="+fname(fn), w.Pos(fn.Pos()), "no splice of nested and remaining pairs: shape not recognised, not decided")
			}
		}
	}
}

// TERM-PREPARED (C02, C03): what is indexed is what is stored.
func ruleTermPrepared(prop string) ruleFn {
	return func(w *World, r *Report) {
		r.Rule("TERM-PREPARED", "in IndexedState.add the terms put into the fact index are extracted from the very value that is stored in the fact map (the result of PrepareFact), not from the caller's raw map: PrepareFact rewrites properties (ttl becomes expires, the id is injected), and a search re-matches against the stored value — terms taken from the raw map miss exactly the rewritten properties, so a pattern that names them gets no candidates", 1)
		fn := w.Method("core", "IndexedState", "add")
		et := w.Func("core", "ExtractTerms")
		key := "fn=" + fname(fn)
		var stored []ssa.Value
		allInstrs(fn, func(in ssa.Instruction) {
			if mu, ok := in.(*ssa.MapUpdate); ok && isFieldLoad(mu.Map, "core.IndexedState", "IdToFact") {
				stored = append(stored, mu.Value)
			}
		})
		var calls []*ssa.Call
		allInstrs(fn, func(in ssa.Instruction) {
			if c, ok := in.(*ssa.Call); ok && c.Common().StaticCallee() == et {
				calls = append(calls, c)
			}
		})
		if len(stored) == 0 || len(calls) == 0 {
			r.exempt("TERM-PREPARED", key, w.Pos(fn.Pos()), "add does not both call ExtractTerms and store into the fact map itself: shape not recognised, not decided")
			return
		}
		strip := func(v ssa.Value) ssa.Value {
			for i := 0; i < 4; i++ {
				switch x := v.(type) {
				case *ssa.ChangeType:
					v = x.X
				case *ssa.MakeInterface:
					v = x.X
				case *ssa.Convert:
					v = x.X
				default:
					return v
				}
			}
			return v
		}
		for _, c := range calls {
			arg := strip(c.Call.Args[len(c.Call.Args)-1])
			same := false
			// the terms of the fact that is stored already (to take them out before it is replaced) are terms of a stored value too
			if dependsOn(arg, func(x ssa.Value) bool {
				lk, ok := x.(*ssa.Lookup)
				return ok && isFieldLoad(lk.X, "core.IndexedState", "IdToFact")
			}) {
				same = true
			}
			for _, sv := range stored {
				if sameValue(strip(sv), arg) {
					same = true
				}
			}
			if same {
				r.ok("TERM-PREPARED", key, w.PosOf(c), "terms are extracted from the stored value")
			} else {
				r.violation("TERM-PREPARED", key, w.PosOf(c), "the indexed terms are extracted from another value than the one stored in the fact map: properties rewritten by PrepareFact are not indexed")
			}
		}
	}
}

// CLOCK-AFTER-LOCK (C07): expiry is judged against the time the state is read, not the time the lock was asked for.
func ruleClockAfterLock(w *World, r *Report) {
	r.Rule("CLOCK-AFTER-LOCK", "in every State function that takes the state lock itself and judges expiry against a clock reading (a value derived from NowSecs / time.Now handed to the purge helper), the clock is read after the lock was acquired: no path leads from the clock reading through the acquisition of the state lock to the use.  A lookup that waits for a writer across an item's expiry instant would otherwise compare against the time it started waiting, and return (and dispatch) the item after it expired, without purging it", 2)
	a := newLocAnchors(w)
	purge := expiryJudges(w)
	isClock := func(v ssa.Value) bool {
		c, ok := v.(*ssa.Call)
		if !ok {
			return false
		}
		f := c.Common().StaticCallee()
		return f != nil && (f.Name() == "NowSecs" || (f.Pkg != nil && f.Pkg.Pkg.Path() == "time" && f.Name() == "Now"))
	}
	n := 0
	for _, fn := range w.Funcs {
		owner, ok := stateOwnerOf(a, fn)
		if !ok || isTestFile(w, fn) || fn.Parent() != nil {
			continue
		}
		var locks, uses []ssa.Instruction
		allInstrs(fn, func(in ssa.Instruction) {
			c := callOf(in)
			if c == nil {
				return
			}
			if _, isDefer := in.(*ssa.Defer); isDefer {
				return
			}
			f := c.StaticCallee()
			if f == nil {
				return
			}
			if o2, ok := stateOwnerOf(a, f); ok && o2 == owner && f.Name() == "slock" {
				locks = append(locks, in)
			}
			if purge[f] {
				for _, arg := range c.Args {
					if b, ok := arg.Type().Underlying().(*types.Basic); ok && b.Kind() == types.Int64 && dependsOn(arg, isClock) {
						uses = append(uses, in)
					}
				}
			}
		})
		if len(locks) == 0 || len(uses) == 0 {
			continue
		}
		n++
		key := "fn=" + fname(fn)
		bad := false
		for _, u := range uses {
			c := callOf(u)
			var clocks []ssa.Instruction
			for _, arg := range c.Args {
				dependsOn(arg, func(v ssa.Value) bool {
					if isClock(v) {
						clocks = append(clocks, v.(ssa.Instruction))
					}
					return false
				})
			}
			for _, ck := range clocks {
				for _, l := range locks {
					if reachable(fn, ck, l) && reachable(fn, l, u) && !bad {
						r.violation("CLOCK-AFTER-LOCK", key, w.PosOf(ck), "the clock is read before the state lock is acquired (at "+w.PosOf(l)+") and the reading is used for the expiry test afterwards: a lookup that waits for the lock across an expiry instant returns the expired item")
						bad = true
					}
				}
			}
		}
		if !bad {
			r.ok("CLOCK-AFTER-LOCK", key, w.PosOf(uses[0]), "the clock is read under the lock")
		}
	}
	if n == 0 {
		r.exempt("CLOCK-AFTER-LOCK", "scope=state implementations", "", "no state function both locks and judges expiry against a clock reading: shape not recognised, not decided")
	}
}

// EXP-ABSOLUTE (C07): a given expiry instant is taken as it is.
func ruleExpAbsolute(w *World, r *Report) {
	r.Rule("EXP-ABSOLUTE", "in setExpires no value that derives from the fact's `expires` entry (an absolute instant given by the writer) also depends on the clock: only a ttl is relative to now.  `now + expires` would turn every given instant into one decades away — such an item is never refused as already expired, never expires and is never purged", 1)
	fn := w.Func("core", "setExpires")
	key := "fn=" + fname(fn)
	isClock := func(v ssa.Value) bool {
		c, ok := v.(*ssa.Call)
		if !ok {
			return false
		}
		f := c.Common().StaticCallee()
		return f != nil && (f.Name() == "NowSecs" || (f.Pkg != nil && f.Pkg.Pkg.Path() == "time" && f.Name() == "Now"))
	}
	isExpLookup := func(v ssa.Value) bool {
		lk, ok := v.(*ssa.Lookup)
		if !ok {
			return false
		}
		k, ok := constKey(lk.Index)
		return ok && k == "expires"
	}
	n := 0
	var bad ssa.Instruction
	allInstrs(fn, func(in ssa.Instruction) {
		bo, ok := in.(*ssa.BinOp)
		if !ok {
			return
		}
		if _, isInt := bo.Type().Underlying().(*types.Basic); !isInt {
			return
		}
		switch bo.Op {
		case token.ADD, token.SUB:
		default:
			return
		}
		dx, dy := dependsOn(bo.X, isExpLookup), dependsOn(bo.Y, isExpLookup)
		cx, cy := dependsOn(bo.X, isClock), dependsOn(bo.Y, isClock)
		if dx || dy {
			n++
		}
		if (dx && cy) || (dy && cx) {
			if bad == nil {
				bad = in
			}
		}
	})
	// also: is there an `expires` lookup at all
	has := false
	allInstrs(fn, func(in ssa.Instruction) {
		if v, ok := in.(ssa.Value); ok && isExpLookup(v) {
			has = true
		}
	})
	switch {
	case !has:
		r.exempt("EXP-ABSOLUTE", key, w.Pos(fn.Pos()), "setExpires does not look `expires` up: shape not recognised, not decided")
	case bad != nil:
		r.violation("EXP-ABSOLUTE", key, w.PosOf(bad), "a value derived from the given `expires` instant is combined with a clock reading: the absolute instant is treated as relative to now")
	default:
		r.ok("EXP-ABSOLUTE", key, w.Pos(fn.Pos()), "the given instant is never combined with the clock")
	}
}

// NIL-ZERO-ARG (C13): a variable that was never assigned is not handed to code that uses it.
func ruleNilZeroArg(w *World, r *Report) {
	r.Rule("NIL-ZERO-ARG", "no call hands a rulio function the zero value of a local variable or named result of interface or pointer type that no assignment can have reached yet (no store to the variable reaches the load), when that function invokes a method on, or dereferences, the parameter it receives it in: the call panics with a nil dereference — in the HTTP listener that kills the serving goroutine as soon as the pending-request limit is reached", 1)
	usesParam := func(f *ssa.Function, idx int) bool {
		if f == nil || f.Blocks == nil || idx >= len(f.Params) {
			return false
		}
		p := f.Params[idx]
		used := false
		// only what is reachable when the parameter IS nil: edges on which a test found it non-nil are deleted
		del := map[bedge]bool{}
		for _, b := range f.Blocks {
			if len(b.Instrs) == 0 {
				continue
			}
			ifi, ok := b.Instrs[len(b.Instrs)-1].(*ssa.If)
			if !ok {
				continue
			}
			ct, ok := decodeIf(ifi)
			if !ok || ct.V != ssa.Value(p) {
				// `ctx != nil && ...`: the left operand decides on its own edge, which decodeIf sees as a test of p
				continue
			}
			if ct.TrueWhen == "nonnil" {
				del[bedge{b, 0}] = true
			} else if ct.TrueWhen == "nil" {
				del[bedge{b, 1}] = true
			}
		}
		live := blocksReachable(f, edgeFilterOf(del))
		allInstrs(f, func(in ssa.Instruction) {
			if !live[in.Block()] {
				return
			}
			switch x := in.(type) {
			case ssa.CallInstruction:
				c := x.Common()
				if c.IsInvoke() && c.Value == ssa.Value(p) {
					used = true
				}
				// handed on to something that wraps it (bufio.NewWriter(c)) and is used afterwards: count an
				// argument position of an external constructor as a use
				for _, a := range c.Args {
					if a == ssa.Value(p) {
						if cf := c.StaticCallee(); cf == nil || cf.Pkg == nil || !strings.HasPrefix(cf.Pkg.Pkg.Path(), modPath) {
							used = true
						}
					}
				}
			case *ssa.UnOp:
				if x.Op == token.MUL && x.X == ssa.Value(p) {
					used = true
				}
			case *ssa.FieldAddr:
				if x.X == ssa.Value(p) {
					used = true
				}
			}
		})
		return used
	}
	n := 0
	sites := 0
	for _, fn := range w.Funcs {
		if isTestFile(w, fn) || fn.Synthetic != "" {
			continue
		}
		pk := w.RelPkg(fn)
		if pk != "core" && pk != "sys" && pk != "service" && pk != "cron" && pk != "crolt" {
			continue
		}
		allInstrs(fn, func(in ssa.Instruction) {
			ci, ok := in.(ssa.CallInstruction)
			if !ok {
				return
			}
			c := ci.Common()
			f := c.StaticCallee()
			if f == nil || !w.IsRulio(f) {
				return
			}
			for ai, a := range c.Args {
				// the zero value itself: a named result that is read before anything was assigned to it is a nil constant
				if k, isConst := a.(*ssa.Const); isConst && k.Value == nil {
					switch a.Type().Underlying().(type) {
					case *types.Interface, *types.Pointer:
						sites++
						if usesParam(f, ai) {
							n++
							r.violation("NIL-ZERO-ARG", "fn="+fname(fn)+" callee="+fname(f), w.PosOf(in), "the argument is nil (a variable that nothing has assigned yet), and the callee calls a method on it / dereferences it")
						}
					}
					continue
				}
				ld, ok := a.(*ssa.UnOp)
				if !ok || ld.Op != token.MUL {
					continue
				}
				al, ok := ld.X.(*ssa.Alloc)
				if !ok {
					continue
				}
				switch a.Type().Underlying().(type) {
				case *types.Interface, *types.Pointer:
				default:
					continue
				}
				sites++
				// can any store to the variable reach this load?
				reached := false
				escapes := false
				for _, ref := range *al.Referrers() {
					switch y := ref.(type) {
					case *ssa.Store:
						if y.Addr == ssa.Value(al) && (reachable(fn, y, ld) || y.Block() == ld.Block() && posOfInstr(y).i < posOfInstr(ld).i) {
							reached = true
						}
					case *ssa.UnOp:
					default:
						// its address is taken (a closure, a call): somebody else may assign it
						if _, isDbg := ref.(*ssa.DebugRef); !isDbg {
							escapes = true
						}
					}
				}
				if reached || escapes {
					continue
				}
				if !usesParam(f, ai) {
					continue
				}
				n++
				r.violation("NIL-ZERO-ARG", "fn="+fname(fn)+" callee="+fname(f), w.PosOf(in), "the argument is a variable that nothing has assigned yet (its zero value, nil), and the callee calls a method on it / dereferences it")
			}
		})
	}
	r.ok("NIL-ZERO-ARG", "scope=core sys service cron crolt", "", itoa(sites)+" call arguments loaded from local variables of interface / pointer type examined")
	_ = n
}

// CTOR-PARAM (C20, C14): a constructor does not drop what it is given.
func ruleCtorParam(prop string) ruleFn {
	return func(w *World, r *Report) {
		r.Rule("CTOR-PARAM", "every parameter of an exported constructor (a package-level function New...) of core, sys and cron is used: core.NewLocation is handed the location's Control (sys passes the per-group control: MaxFacts, script timeouts, action interpreters), and a constructor that silently drops it leaves every location on the process-wide default — a group's lower capacity or shorter script timeout is never enforced.  (*Context parameters are not counted.)", 5)
		n := 0
		for _, fn := range w.Funcs {
			if isTestFile(w, fn) || fn.Synthetic != "" || fn.Parent() != nil || fn.Signature.Recv() != nil {
				continue
			}
			pk := w.RelPkg(fn)
			if pk != "core" && pk != "sys" && pk != "cron" {
				continue
			}
			if !strings.HasPrefix(fn.Name(), "New") || fn.Object() == nil || !fn.Object().Exported() {
				continue
			}
			for _, p := range fn.Params {
				if p.Name() == "_" || p.Name() == "" {
					continue
				}
				if pt, ok := p.Type().(*types.Pointer); ok && isNamed(pt.Elem(), modPath+"/core", "Context") {
					continue
				}
				n++
				used := false
				if refs := p.Referrers(); refs != nil {
					for _, ref := range *refs {
						if _, isDbg := ref.(*ssa.DebugRef); !isDbg {
							used = true
						}
					}
				}
				key := "ctor=" + fname(fn) + " param=" + p.Name()
				if used {
					r.ok("CTOR-PARAM", key, w.Pos(fn.Pos()), "used")
				} else {
					r.violation("CTOR-PARAM", key, w.Pos(fn.Pos()), "the constructor never uses this parameter: what the caller configures through it has no effect")
				}
			}
		}
		_ = n
	}
}

// TIME-PARSE-ARGS (C16): time.Parse(layout, value), not the other way round.
func ruleTimeParseArgs(prop string) ruleFn {
	return func(w *World, r *Report) {
		r.Rule("TIME-PARSE-ARGS", "every call of time.Parse in rulio passes the layout first: a call whose first argument is not a constant while its second argument is a constant string (a layout such as time.RFC3339) has its arguments swapped — it parses the layout text with the user's value as the layout and never succeeds, so an absolute-time one-shot schedule is never recognised as one", 3)
		n := 0
		for _, fn := range w.Funcs {
			if isTestFile(w, fn) || fn.Synthetic != "" {
				continue
			}
			allInstrs(fn, func(in ssa.Instruction) {
				c := callOf(in)
				if c == nil {
					return
				}
				f := c.StaticCallee()
				if f == nil || f.Pkg == nil || f.Pkg.Pkg.Path() != "time" || f.Name() != "Parse" || len(c.Args) != 2 {
					return
				}
				n++
				key := "fn=" + fname(fn) + " call#" + itoa(n)
				_, c0 := c.Args[0].(*ssa.Const)
				_, c1 := c.Args[1].(*ssa.Const)
				if !c0 && c1 {
					r.violation("TIME-PARSE-ARGS", "fn="+fname(fn), w.PosOf(in), "time.Parse is called with the value as the layout and a constant layout as the value")
				} else {
					r.ok("TIME-PARSE-ARGS", key, w.PosOf(in), "layout first")
				}
			})
		}
	}
}

// CROLT-URL (C15, C16): every request of the crolt client names its operation.
func ruleCroltURL(prop string) ruleFn {
	return func(w *World, r *Report) {
		r.Rule("CROLT-URL", "sibling agreement over the methods of cron.CroltSimple (the client of the persistent cron service): the URL of every HTTP request they make is built from CroltURL and a constant path segment that begins with \"/\" (\"/add\", \"/rem\"): a request without its operation segment goes to the service's root, is answered with something that is not an error, and the job that was to be removed keeps firing", 2)
		n := w.TryNamed("cron", "CroltSimple")
		if n == nil {
			r.exempt("CROLT-URL", "type=cron.CroltSimple", "", "type not found: not decided")
			return
		}
		newReq := w.Func("core", "NewHTTPRequest")
		k := 0
		for _, fn := range w.MethodsOf(n) {
			allInstrs(fn, func(in ssa.Instruction) {
				c := callOf(in)
				if c == nil || c.StaticCallee() != newReq || len(c.Args) < 3 {
					return
				}
				k++
				key := "fn=" + fname(fn)
				url := c.Args[2]
				hasSeg := dependsOn(url, func(v ssa.Value) bool {
					bo, ok := v.(*ssa.BinOp)
					if !ok || bo.Op != token.ADD {
						return false
					}
					for _, op := range []ssa.Value{bo.X, bo.Y} {
						if s, ok := constString(op); ok && strings.HasPrefix(s, "/") && len(s) > 1 {
							return true
						}
					}
					return false
				})
				if hasSeg {
					r.ok("CROLT-URL", key, w.PosOf(in), "the URL carries a constant operation segment")
				} else {
					r.violation("CROLT-URL", key, w.PosOf(in), "the request URL is built without an operation segment (its siblings append \"/add\" ...): the request does not reach the operation")
				}
			})
		}
		if k == 0 {
			r.exempt("CROLT-URL", "type=cron.CroltSimple", w.Pos(n.Obj().Pos()), "no method builds an HTTP request with core.NewHTTPRequest: shape not recognised, not decided")
		}
	}
}

// AT-UTC (C16): crolt's time keys are UTC.
func ruleAtUTC(w *World, r *Report) {
	r.Rule("AT-UTC", "every value stored into crolt's Job.at (the instant a job is due, which is formatted into the byte-ordered time-index key and compared with a UTC `now`) derives from a time that went through .UTC() (or was parsed from the job's own expression): a due time computed from the local clock sorts wrongly against UTC keys in any zone but UTC — west of UTC a job due in an hour fires at the next poll, east of UTC a due job does not fire", 3)
	n := 0
	for _, fn := range w.Funcs {
		if w.RelPkg(fn) != "crolt" || isTestFile(w, fn) {
			continue
		}
		allInstrs(fn, func(in ssa.Instruction) {
			st, ok := storesToField(in, "crolt.Job", "at")
			if !ok {
				return
			}
			n++
			key := "fn=" + fname(fn) + " store#" + itoa(n)
			okv := dependsOn(st.Val, func(v ssa.Value) bool {
				c, ok := v.(*ssa.Call)
				if !ok {
					return false
				}
				f := c.Common().StaticCallee()
				if f == nil || f.Pkg == nil || f.Pkg.Pkg.Path() != "time" {
					return false
				}
				return f.Name() == "UTC" || f.Name() == "Parse"
			})
			if okv {
				r.ok("AT-UTC", key, w.PosOf(in), "derives from a UTC (or parsed) time")
			} else {
				r.violation("AT-UTC", "fn="+fname(fn), w.PosOf(in), "the due time stored here does not go through .UTC(): in a zone other than UTC its key sorts wrongly against the UTC `now` of the work loop")
			}
		})
	}
	if n == 0 {
		r.exempt("AT-UTC", "field=crolt.Job.at", "", "nothing stores into Job.at: shape not recognised, not decided")
	}
}

// GATE-FAILCLOSED (C19): a key that cannot be read is not "no key".
func ruleGateFailClosed(w *World, r *Report) {
	r.Rule("GATE-FAILCLOSED", "the key gates fail closed: in Location.CheckWrite and CheckRead the error of the key lookup (GetPropString) is not discarded — a refusal (a non-nil error return) is control-dependent on it.  If the error is dropped, a key that cannot be read as a string (a number, a storage or purge error while reading it) counts as `no key`, and the location is unprotected although a key is stored", 2)
	gps := w.Func("core", "GetPropString")
	for _, name := range []string{"CheckWrite", "CheckRead"} {
		fn := w.Method("core", "Location", name)
		key := "gate=" + fname(fn)
		var calls []*ssa.Call
		allInstrs(fn, func(in ssa.Instruction) {
			if c, ok := in.(*ssa.Call); ok && c.Common().StaticCallee() == gps {
				calls = append(calls, c)
			}
		})
		if len(calls) == 0 {
			r.exempt("GATE-FAILCLOSED", key, w.Pos(fn.Pos()), "the gate does not call GetPropString directly: shape not recognised, not decided")
			continue
		}
		ok := true
		for _, c := range calls {
			isErr := func(v ssa.Value) bool {
				ex, isEx := v.(*ssa.Extract)
				return isEx && ex.Tuple == ssa.Value(c) && ex.Index == 2
			}
			refusal := false
			allInstrs(fn, func(in ssa.Instruction) {
				ret, isRet := in.(*ssa.Return)
				if !isRet || isSuccessReturnPS(in) {
					return
				}
				_ = ret
				if controlDependsOn(fn, in, isErr) {
					refusal = true
				}
			})
			if !refusal {
				ok = false
				r.violation("GATE-FAILCLOSED", key, w.PosOf(c), "the error of the key lookup is dropped: a key that cannot be read counts as no key, and the gate lets everybody through")
			}
		}
		if ok {
			r.ok("GATE-FAILCLOSED", key, w.PosOf(calls[0]), "a failed key lookup refuses")
		}
	}
}

// HOOK-ADD-KEEPS (C15): the add hook never leaves a rule that stays without its job.
func ruleHookAddKeeps(w *World, r *Report) {
	r.Rule("HOOK-ADD-KEEPS", "the add hook installed by cron.AddHooks schedules; it does not unschedule.  If the hook removes a job (Cronner.Rem) before it schedules the new one, no refusal (a non-nil error return, which makes State.Add refuse the new rule and keep the old one) is reachable after the ScheduleEvent call without the job having been scheduled again: otherwise a refused replacement leaves the old rule in the location with no job, and it never fires again", 1)
	iface := w.Named("cron", "Cronner")
	ah := w.Func("cron", "AddHooks")
	n := 0
	for _, fn := range ah.AnonFuncs {
		isSched := func(in ssa.Instruction) bool {
			c := callOf(in)
			return c != nil && isIfaceMethodCall(c, iface, "ScheduleEvent")
		}
		isRem := func(in ssa.Instruction) bool {
			c := callOf(in)
			return c != nil && isIfaceMethodCall(c, iface, "Rem")
		}
		var scheds, rems []ssa.Instruction
		allInstrs(fn, func(in ssa.Instruction) {
			if isSched(in) {
				scheds = append(scheds, in)
			}
			if isRem(in) {
				rems = append(rems, in)
			}
		})
		if len(scheds) == 0 {
			continue
		}
		n++
		key := "hook=" + fname(fn)
		bad := false
		for _, rm := range rems {
			for _, s := range scheds {
				if !reachable(fn, rm, s) {
					continue
				}
				hit, _ := reach(fn, s, func(in ssa.Instruction) bool {
					_, isRet := in.(*ssa.Return)
					return isRet && !isSuccessReturnPS(in)
				}, func(in ssa.Instruction) bool { return in != s && isSched(in) }, nil)
				if hit != nil {
					bad = true
					r.violation("HOOK-ADD-KEEPS", key, w.PosOf(rm), "the add hook removes the job before scheduling; the refusal at "+w.PosOf(hit)+" is reachable after that with nothing scheduled: the rule that stays has lost its job")
				}
			}
		}
		if !bad {
			r.ok("HOOK-ADD-KEEPS", key, w.PosOf(scheds[0]), itoa(len(rems))+" removal(s) before scheduling, none can end in a refusal")
		}
	}
	if n == 0 {
		r.exempt("HOOK-ADD-KEEPS", "hook=none", w.Pos(ah.Pos()), "no closure of AddHooks calls Cronner.ScheduleEvent: shape not recognised")
	}
}

// CACHE-PENDING-SHARED (C17): while a system runs (CachePending is forced on), every new entry is published.
func ruleCachePendingShared(w *World, r *Report) {
	r.Rule("CACHE-PENDING-SHARED", "premise: sys.NewSystem forces SystemControl.CachePending on (checked: a store of `true` into the field).  Conclusion: in CachedLocations.Open, with the `CachePending is false` edges deleted, every path from the allocation of a new entry to the release of the table lock passes the store of that entry into `locs` — for every TTL, including `never`.  An entry that is not published is not shared: N concurrent first requests then load the location N times and work on N instances", 1)
	// premise
	ns := w.Func("sys", "NewSystem")
	forced := false
	allInstrs(ns, func(in ssa.Instruction) {
		if st, ok := in.(*ssa.Store); ok {
			if n, f, _, ok := fieldOf(st.Addr); ok && typeKey(n) == "sys.SystemControl" && f == "CachePending" {
				if b, isC := isConstBool(st.Val); isC && b {
					forced = true
				}
			}
		}
	})
	fn := w.Method("sys", "CachedLocations", "Open")
	key := "fn=" + fname(fn)
	if !forced {
		r.exempt("CACHE-PENDING-SHARED", key, w.Pos(ns.Pos()), "premise fails: NewSystem no longer forces CachePending on; not decided by this rule")
		return
	}
	// the premise has to hold for every way of installing a control: whoever replaces System.control at run time
	// (SetControl, i.e. /api/sys/control) forces the flag as NewSystem does
	for _, g := range w.Funcs {
		if w.RelPkg(g) != "sys" || isTestFile(w, g) || g == ns {
			continue
		}
		replaces := false
		forces := false
		allInstrs(g, func(in ssa.Instruction) {
			if c := callOf(in); c != nil && isPkgFunc(calleeObj(c), "sync/atomic", "StorePointer") && len(c.Args) == 2 {
				if n, f, _, ok := fieldOf(c.Args[0]); ok && typeKey(n) == "sys.System" && f == "control" {
					replaces = true
				}
			}
			if st, ok := in.(*ssa.Store); ok {
				if n, f, _, ok := fieldOf(st.Addr); ok && typeKey(n) == "sys.SystemControl" && f == "CachePending" {
					if b, isC := isConstBool(st.Val); isC && b {
						forces = true
					}
				}
			}
		})
		if !replaces {
			continue
		}
		k2 := "premise fn=" + fname(g)
		if forces {
			r.ok("CACHE-PENDING-SHARED", k2, w.Pos(g.Pos()), "a control installed at run time has CachePending forced on, as in NewSystem")
		} else {
			r.violation("CACHE-PENDING-SHARED", k2, w.Pos(g.Pos()), "this function replaces the system's control without forcing CachePending on: with LocationTTL `never`, concurrent first requests then each load the location")
		}
	}
	isLocs := func(v ssa.Value) bool {
		n, f, _, ok := loadedField(v)
		return ok && typeKey(n) == "sys.CachedLocations" && f == "locs"
	}
	del := map[bedge]bool{}
	for _, b := range fn.Blocks {
		if len(b.Instrs) == 0 {
			continue
		}
		ifi, ok := b.Instrs[len(b.Instrs)-1].(*ssa.If)
		if !ok {
			continue
		}
		ct, ok := decodeIf(ifi)
		if !ok {
			continue
		}
		n, f, _, ok := loadedField(resolveSpill(ct.V))
		if !ok || typeKey(n) != "sys.SystemControl" || f != "CachePending" {
			continue
		}
		if ct.TrueWhen == "true" {
			del[bedge{b, 1}] = true
		} else if ct.TrueWhen == "false" {
			del[bedge{b, 0}] = true
		}
	}
	var allocs []ssa.Instruction
	allInstrs(fn, func(in ssa.Instruction) {
		if a, ok := in.(*ssa.Alloc); ok && a.Heap && typeKey(namedOf(a.Type().(*types.Pointer).Elem())) == "sys.CachedLocation" {
			allocs = append(allocs, in)
		}
	})
	if len(allocs) == 0 {
		r.exempt("CACHE-PENDING-SHARED", key, w.Pos(fn.Pos()), "Open allocates no entry: shape not recognised, not decided")
		return
	}
	for _, a := range allocs {
		av := a.(ssa.Value)
		isPub := func(in ssa.Instruction) bool {
			mu, ok := in.(*ssa.MapUpdate)
			return ok && isLocs(mu.Map) && mu.Value == av
		}
		isUnlock := func(in ssa.Instruction) bool {
			c := callOf(in)
			if c == nil {
				return false
			}
			o := calleeObj(c)
			return o != nil && o.Name() == "Unlock"
		}
		if h, _ := reach(fn, a, isUnlock, isPub, edgeFilterOf(del)); h != nil {
			r.violation("CACHE-PENDING-SHARED", key, w.PosOf(h), "the table lock is released with the new entry ("+w.PosOf(a)+") not in the table although CachePending is on: concurrent first requests each load the location")
			return
		}
	}
	r.ok("CACHE-PENDING-SHARED", key, w.PosOf(allocs[0]), "every new entry is in the table before the table lock is released (CachePending on)")
}

// CRON-NEXT-ZERO (C15, C16): "no occurrence left" is not "due now".
func ruleCronNextZero(prop string) ruleFn {
	return func(w *World, r *Report) {
		r.Rule("CRON-NEXT-ZERO", "cronexpr's Expression.Next returns the zero time when the expression has no occurrence after the given instant (e.g. a year field in the past).  Every call of it in rulio's crons tests its result with IsZero, and the store of the due time (or of a time computed from it) is control-dependent on that test: a zero due time is before every `now`, so the job is due at once, reschedules to the zero time again and fires in a tight loop", 2)
		n := 0
		for _, fn := range w.Funcs {
			rel := w.RelPkg(fn)
			if (rel != "cron" && rel != "crolt") || isTestFile(w, fn) {
				continue
			}
			allInstrs(fn, func(in ssa.Instruction) {
				c, ok := in.(*ssa.Call)
				if !ok {
					return
				}
				o := calleeObj(c.Common())
				if o == nil || o.Name() != "Next" || o.Pkg() == nil || !strings.HasSuffix(o.Pkg().Path(), "gorhill/cronexpr") {
					return
				}
				n++
				key := "fn=" + fname(fn) + " call=Expression.Next"
				fromNext := func(v ssa.Value) bool { return v == ssa.Value(c) }
				isZeroOfNext := func(v ssa.Value) bool {
					zc, ok := v.(*ssa.Call)
					if !ok {
						return false
					}
					zo := calleeObj(zc.Common())
					if zo == nil || zo.Name() != "IsZero" || zo.Pkg() == nil || zo.Pkg().Path() != "time" || len(zc.Common().Args) == 0 {
						return false
					}
					return dependsOnFS(zc.Common().Args[0], fromNext)
				}
				// the stores that keep the result
				var stores []ssa.Instruction
				allInstrs(fn, func(x ssa.Instruction) {
					if st, ok := x.(*ssa.Store); ok {
						if _, _, _, isField := fieldOf(st.Addr); isField && dependsOn(st.Val, fromNext) {
							stores = append(stores, x)
						}
					}
				})
				if len(stores) == 0 {
					r.exempt("CRON-NEXT-ZERO", key, w.PosOf(in), "the result is not stored in a field here: shape not recognised, not decided")
					return
				}
				for _, st := range stores {
					if !controlDependsOn(fn, st, isZeroOfNext) {
						r.violation("CRON-NEXT-ZERO", key, w.PosOf(st), "the due time is stored without a test for the zero time (`no occurrence left`): such a job is due immediately, for ever")
						return
					}
				}
				r.ok("CRON-NEXT-ZERO", key, w.PosOf(in), "the due time is kept only when it is not the zero time")
			})
		}
		if n == 0 {
			r.exempt("CRON-NEXT-ZERO", "call=Expression.Next", "", "no call of cronexpr's Expression.Next in cron or crolt: shape not recognised, not decided")
		}
	}
}

// ONESHOT-AGREE (C15): the cron and the engine classify the same string.
func ruleOneShotAgree(w *World, r *Report) {
	r.Rule("ONESHOT-AGREE", "premise: cron.ParseSchedule trims the schedule (strings.TrimSpace) before the crons classify it as one-shot or recurring (checked).  Conclusion: core.OneShotSchedule, by which RuleDone.Do decides whether the rule that just ran is deleted, tests a byte of the trimmed string too.  If only the cron trims, a schedule like \" +1s\" is one-shot for the cron (it fires once) and recurring for the engine: the rule is never deleted although it will never fire again", 1)
	ps := w.Func("cron", "ParseSchedule")
	one := w.Func("core", "OneShotSchedule")
	isTrim := func(v ssa.Value) bool {
		c, ok := v.(*ssa.Call)
		if !ok {
			return false
		}
		return isPkgFunc(calleeObj(c.Common()), "strings", "TrimSpace")
	}
	trims := false
	allInstrs(ps, func(in ssa.Instruction) {
		if v, ok := in.(ssa.Value); ok && isTrim(v) {
			trims = true
		}
	})
	key := "fn=" + fname(one)
	if !trims {
		r.exempt("ONESHOT-AGREE", key, w.Pos(ps.Pos()), "premise fails: ParseSchedule does not trim; nothing to agree with")
		return
	}
	n := 0
	bad := false
	allInstrs(one, func(in ssa.Instruction) {
		var x ssa.Value
		switch t := in.(type) {
		case *ssa.Index:
			x = t.X
		case *ssa.Lookup:
			x = t.X
		case *ssa.Slice:
			x = t.X
		default:
			return
		}
		if !dependsOn(x, func(v ssa.Value) bool { return v == ssa.Value(one.Params[0]) }) {
			return
		}
		n++
		if !dependsOn(x, isTrim) {
			bad = true
			r.violation("ONESHOT-AGREE", key, w.PosOf(in), "the byte that decides `one-shot` is taken from the untrimmed schedule, while the crons classify the trimmed one")
		}
	})
	if n == 0 {
		r.exempt("ONESHOT-AGREE", key, w.Pos(one.Pos()), "OneShotSchedule does not index its parameter: shape not recognised, not decided")
	} else if !bad {
		r.ok("ONESHOT-AGREE", key, w.Pos(one.Pos()), "classifies the trimmed schedule, as the crons do")
	}
}

// HOOK-BEFORE-STORE (C06, C15): what the add hook refuses is not in storage.
func ruleHookBeforeStore(prop string) ruleFn {
	return func(w *World, r *Report) {
		r.Rule("HOOK-BEFORE-STORE", "in every State implementation's Add, the add hook (which refuses e.g. a rule whose schedule the cron cannot parse) is called, directly or in a callee of the same type, before Storage.Add: no path leads from the storage write to the hook.  Otherwise a fact that the hook refuses is reported as refused and is absent from memory but is in storage: after a reload it is there, and a load that runs the hook fails on it, so the location cannot be opened any more", 2)
		a := newLocAnchors(w)
		for n := range a.stateImp {
			owner := typeKey(n)
			add := w.TryMethod(typeRel(n), n.Obj().Name(), "Add")
			if add == nil || stateFactField[owner] == "" {
				continue
			}
			isHook := func(in ssa.Instruction) bool { _, ok := hookCall(owner, "addHook", in); return ok }
			isStoreAdd := func(in ssa.Instruction) bool {
				d, ok := isStorageMutation(w, in)
				return ok && strings.HasSuffix(d, "Add")
			}
			hk := map[*ssa.Function]bool{}
			methods := w.MethodsOf(n)
			for changed := true; changed; {
				changed = false
				for _, fn := range methods {
					allInstrs(fn, func(in ssa.Instruction) {
						if hk[fn] {
							return
						}
						if isHook(in) {
							hk[fn], changed = true, true
							return
						}
						if c := callOf(in); c != nil {
							if f := c.StaticCallee(); f != nil && f != fn && hk[f] {
								if o2, ok := stateOwnerOf(a, f); ok && o2 == owner {
									hk[fn], changed = true, true
								}
							}
						}
					})
				}
			}
			hookHere := func(in ssa.Instruction) bool {
				if _, isDefer := in.(*ssa.Defer); isDefer {
					return false
				}
				if isHook(in) {
					return true
				}
				if c := callOf(in); c != nil {
					if f := c.StaticCallee(); f != nil && f != add && hk[f] {
						return true
					}
				}
				return false
			}
			key := "fn=" + fname(add)
			var stores, hooks []ssa.Instruction
			allInstrs(add, func(in ssa.Instruction) {
				if isStoreAdd(in) {
					stores = append(stores, in)
				}
				if hookHere(in) {
					hooks = append(hooks, in)
				}
			})
			if len(stores) == 0 || len(hooks) == 0 {
				r.exempt("HOOK-BEFORE-STORE", key, w.Pos(add.Pos()), "Add does not both write storage and run the add hook: shape not recognised, not decided")
				continue
			}
			bad := false
			for _, s := range stores {
				for _, h := range hooks {
					if reachable(add, s, h) {
						bad = true
						r.violation("HOOK-BEFORE-STORE", key, w.PosOf(h), "the add hook runs after Storage.Add ("+w.PosOf(s)+"): a fact the hook refuses is already in storage")
					}
				}
			}
			if !bad {
				r.ok("HOOK-BEFORE-STORE", key, w.PosOf(hooks[0]), "the hook has accepted the fact before storage is written")
			}
		}
	}
}

// HOOK-REPLACE (C15): an overwrite by something unscheduled unschedules.
func ruleHookReplace(w *World, r *Report) {
	r.Rule("HOOK-REPLACE", "no removal hook runs when a fact is overwritten, so the add hook installed by cron.AddHooks is what unregisters the job of a scheduled rule that is replaced by an ordinary rule or fact: besides the path that schedules, the hook has a path that does not reach ScheduleEvent and on which it looks up what is stored under the id (State.Get) and calls Cronner.Rem.  Without it the replaced rule's job stays in the cron and keeps sending its trigger event", 1)
	cr := w.Named("cron", "Cronner")
	st := w.Named("core", "State")
	ah := w.Func("cron", "AddHooks")
	n := 0
	for _, fn := range ah.AnonFuncs {
		isSched := func(in ssa.Instruction) bool {
			c := callOf(in)
			return c != nil && isIfaceMethodCall(c, cr, "ScheduleEvent")
		}
		var scheds, rems, gets []ssa.Instruction
		allInstrs(fn, func(in ssa.Instruction) {
			c := callOf(in)
			if c == nil {
				return
			}
			if isSched(in) {
				scheds = append(scheds, in)
			}
			if isIfaceMethodCall(c, cr, "Rem") {
				rems = append(rems, in)
			}
			if isIfaceMethodCall(c, st, "Get") {
				gets = append(gets, in)
			}
		})
		if len(scheds) == 0 {
			continue
		}
		n++
		key := "hook=" + fname(fn)
		found := false
		for _, rm := range rems {
			leadsToSched := false
			for _, s := range scheds {
				if reachable(fn, rm, s) {
					leadsToSched = true
				}
			}
			if leadsToSched {
				continue
			}
			for _, g := range gets {
				if reachable(fn, g, rm) {
					found = true
				}
			}
		}
		if found {
			r.ok("HOOK-REPLACE", key, w.PosOf(rems[0]), "a fact without a schedule that replaces a scheduled rule removes the job")
			hookReplaceEvery(w, r, fn, key, func(in ssa.Instruction) bool {
				if isSched(in) {
					return true
				}
				c := callOf(in)
				return c != nil && isIfaceMethodCall(c, st, "Get")
			})
		} else if statesUnhookOnOverwrite(w) {
			r.ok("HOOK-REPLACE", key, w.Pos(fn.Pos()), "every State implementation's Add runs the removal hook itself (alternative design)")
		} else {
			r.violation("HOOK-REPLACE", key, w.Pos(fn.Pos()), "the add hook never unregisters: a scheduled rule that is overwritten by an ordinary rule or fact keeps its job")
		}
	}
	if n == 0 {
		r.exempt("HOOK-REPLACE", "hook=none", w.Pos(ah.Pos()), "no closure of AddHooks calls Cronner.ScheduleEvent: shape not recognised")
	}
}

// statesUnhookOnOverwrite: every State implementation's Add reaches (within the type's own methods) a removal-hook call.
func statesUnhookOnOverwrite(w *World) bool {
	a := newLocAnchors(w)
	all, n := true, 0
	for nt := range a.stateImp {
		owner := typeKey(nt)
		add := w.TryMethod(typeRel(nt), nt.Obj().Name(), "Add")
		if add == nil || stateFactField[owner] == "" {
			continue
		}
		n++
		seen := map[*ssa.Function]bool{}
		var has func(fn *ssa.Function) bool
		has = func(fn *ssa.Function) bool {
			if seen[fn] {
				return false
			}
			seen[fn] = true
			found := false
			allInstrs(fn, func(in ssa.Instruction) {
				if found {
					return
				}
				if _, ok := hookCall(owner, "remHook", in); ok {
					found = true
					return
				}
				if c := callOf(in); c != nil {
					if f := c.StaticCallee(); f != nil {
						if o2, ok := stateOwnerOf(a, f); ok && o2 == owner && has(f) {
							found = true
						}
					}
				}
			})
			return found
		}
		if !has(add) {
			all = false
		}
	}
	return all && n > 0
}

// EXIST-EVERY (C17): the existence check belongs to the request, not to the load.
func ruleExistEvery(w *World, r *Report) {
	r.Rule("EXIST-EVERY", "in CachedLocation.Get, with the `checkExists is false` edges deleted, every path to a return passes a check of the creation marker: System.OpenLocation with the caller's flag (when this request loads the location) or locationCreated (when the entry is already loaded).  An entry can be loaded without a check (as a parent through GetLocation, or by CreateLocation) and the marker can disappear while the entry is cached (clear, delete); if only the loading request checks, a cached entry answers a checked request for a location that, from storage alone, does not exist — with TTL never the same request fails", 1)
	fn := w.Method("sys", "CachedLocation", "Get")
	key := "fn=" + fname(fn)
	open := w.Method("sys", "System", "OpenLocation")
	lc := w.Func("sys", "locationCreated")
	var flag ssa.Value
	for _, p := range fn.Params {
		if p.Name() == "checkExists" {
			flag = p
		}
	}
	if flag == nil {
		// last bool parameter
		for _, p := range fn.Params {
			if b, ok := p.Type().Underlying().(*types.Basic); ok && b.Kind() == types.Bool {
				flag = p
			}
		}
	}
	if flag == nil {
		r.exempt("EXIST-EVERY", key, w.Pos(fn.Pos()), "CachedLocation.Get has no boolean check flag: shape not recognised, not decided")
		return
	}
	del := map[bedge]bool{}
	for _, b := range fn.Blocks {
		if len(b.Instrs) == 0 {
			continue
		}
		ifi, ok := b.Instrs[len(b.Instrs)-1].(*ssa.If)
		if !ok {
			continue
		}
		ct, ok := decodeIf(ifi)
		if !ok || resolveSpill(ct.V) != flag {
			continue
		}
		if ct.TrueWhen == "true" {
			del[bedge{b, 1}] = true
		} else if ct.TrueWhen == "false" {
			del[bedge{b, 0}] = true
		}
	}
	isCheck := func(in ssa.Instruction) bool {
		c := callOf(in)
		if c == nil {
			return false
		}
		f := c.StaticCallee()
		if f == lc {
			return true
		}
		if f == open {
			last := c.Args[len(c.Args)-1]
			return dependsOn(last, func(v ssa.Value) bool { return v == flag })
		}
		return false
	}
	isRet := func(in ssa.Instruction) bool { _, ok := in.(*ssa.Return); return ok }
	if h, path := reach(fn, nil, isRet, isCheck, edgeFilterOf(del)); h != nil {
		r.violation("EXIST-EVERY", key, w.PosOf(h), "a checked request can be answered from the cached entry without a look at the creation marker", blockPathString(w, path)...)
		return
	}
	r.ok("EXIST-EVERY", key, w.Pos(fn.Pos()), "every checked request looks at the creation marker")
}

// LOAD-PURE (C17, C06): loading is not creating.
func ruleLoadPure(prop string) ruleFn {
	return func(w *World, r *Report) {
		r.Rule("LOAD-PURE", "Storage.Load does not change the storage object: in every Storage implementation of the repository, Load and the methods of the same type it calls contain no map update on, and no store into, a field of the receiver.  A Load that inserts an (empty) entry for an unknown location creates, in storage, a location that a refused request merely asked about", 1)
		st := w.Iface("core", "Storage")
		n := 0
		for _, nt := range w.Implementers(st) {
			load := w.TryMethod(typeRel(nt), nt.Obj().Name(), "Load")
			if load == nil || isTestFile(w, load) {
				continue
			}
			n++
			key := "impl=" + fname(load)
			owner := typeKey(nt)
			seen := map[*ssa.Function]bool{}
			var bad string
			var visit func(fn *ssa.Function)
			visit = func(fn *ssa.Function) {
				if seen[fn] || bad != "" {
					return
				}
				seen[fn] = true
				withAnon(fn, func(g *ssa.Function) {
					allInstrs(g, func(in ssa.Instruction) {
						if bad != "" {
							return
						}
						switch t := in.(type) {
						case *ssa.MapUpdate:
							if fo, f, _, ok := loadedField(t.Map); ok && typeKey(fo) == owner {
								bad = w.PosOf(in) + " writes " + owner + "." + f
							}
						case *ssa.Store:
							if fo, f, _, ok := fieldOf(t.Addr); ok && typeKey(fo) == owner {
								bad = w.PosOf(in) + " stores into " + owner + "." + f
							}
						}
						if c := callOf(in); c != nil {
							if f := c.StaticCallee(); f != nil && f.Signature.Recv() != nil {
								if rn := namedOf(f.Signature.Recv().Type()); rn != nil && typeKey(rn) == owner {
									visit(f)
								}
							}
						}
					})
				})
			}
			visit(load)
			if bad != "" {
				r.violation("LOAD-PURE", key, w.Pos(load.Pos()), "Load changes the storage object: "+bad)
			} else {
				r.ok("LOAD-PURE", key, w.Pos(load.Pos()), "Load only reads")
			}
		}
		if n == 0 {
			r.exempt("LOAD-PURE", "impl=none", "", "no Storage implementation found: not decided")
		}
	}
}

// ANC-ONCE (C09, C01): an ancestor that is reachable over two parents is one ancestor.
func ruleAncOnce(prop string) ruleFn {
	return func(w *World, r *Report) {
		r.Rule("ANC-ONCE", "the recursive ancestor walk visits every ancestor once: the call of the visit callback is control-dependent on a lookup in a visited set — a map that is carried through the recursion (a parameter or a captured variable), is written with the visited location's name, and from which the walk never deletes (which distinguishes it from the path set used for loop detection, whose entries are removed on the way back).  Without it an ancestor that is reachable over two parents (a diamond) is searched twice: inherited searches and queries return its facts twice, and event dispatch fails with `duplicate id` for each of its rules", 1)
		var walk *ssa.Function
		for _, name := range []string{"doAncestors", "DoAncestors"} {
			if f := w.TryMethod("core", "Location", name); f != nil {
				allInstrs(f, func(in ssa.Instruction) {
					if c := callOf(in); c != nil && c.StaticCallee() == f {
						walk = f
					}
				})
			}
		}
		if walk == nil {
			undecided("ANC-ONCE: recursive ancestor walk not found")
		}
		key := "fn=" + fname(walk)
		var cbParam *ssa.Parameter
		for _, p := range walk.Params {
			if _, ok := p.Type().Underlying().(*types.Signature); ok {
				cbParam = p
			}
		}
		if cbParam == nil {
			r.exempt("ANC-ONCE", key, w.Pos(walk.Pos()), "the walk has no callback parameter: shape not recognised, not decided")
			return
		}
		var visit ssa.Instruction
		allInstrs(walk, func(in ssa.Instruction) {
			if _, isDefer := in.(*ssa.Defer); isDefer {
				return
			}
			if c := callOf(in); c != nil && !c.IsInvoke() && c.Value == ssa.Value(cbParam) {
				visit = in
			}
		})
		if visit == nil {
			r.exempt("ANC-ONCE", key, w.Pos(walk.Pos()), "the walk does not call its callback directly: shape not recognised, not decided")
			return
		}
		isVisitedLookup := ancVisitedLookup(walk)
		// a location enters the visited set on the way back: if it were in the set while its own ancestors are being
		// walked, the silent skip would swallow the back edge of a parent loop before the path set can report it
		early := ""
		allInstrs(walk, func(in ssa.Instruction) {
			mu, ok := in.(*ssa.MapUpdate)
			if !ok || early != "" {
				return
			}
			// the set that the visit's guard looks into
			guardsVisit := controlDependsOn(walk, visit, func(v ssa.Value) bool {
				lk, ok := v.(*ssa.Lookup)
				return ok && isVisitedLookup(v) && resolveSpill(lk.X) == resolveSpill(mu.Map)
			})
			if !guardsVisit {
				return
			}
			if h, _ := reach(walk, in, func(x ssa.Instruction) bool {
				if _, isDefer := x.(*ssa.Defer); isDefer {
					return false
				}
				c := callOf(x)
				return c != nil && c.StaticCallee() == walk
			}, nil, nil); h != nil {
				early = w.PosOf(in)
			}
		})
		if early != "" {
			r.violation("ANC-ONCE", key+" late", early, "a location is entered into the visited set before its ancestors are walked: the back edge of a parent loop then finds it `visited` and is skipped silently instead of being reported as a loop")
		} else {
			r.ok("ANC-ONCE", key+" late", w.PosOf(visit), "a location enters the visited set only after its ancestors were walked")
		}
		if controlDependsOn(walk, visit, isVisitedLookup) {
			r.ok("ANC-ONCE", key, w.PosOf(visit), "the visit is skipped for a location that is in the visited set")
		} else {
			r.violation("ANC-ONCE", key, w.PosOf(visit), "the ancestor walk has no visited set (only the path, which is unwound): an ancestor reachable over two parents is visited twice — duplicate inherited facts, `duplicate id` on event dispatch")
		}
	}
}

// ancLoopSet: the map parameter of the ancestor walk that guards against loops: a lookup in it decides a refusal
// (a non-nil error return).  A second map parameter whose lookup decides a silent skip is the visited set (ANC-ONCE).
func ancLoopSet(walk *ssa.Function) *ssa.Parameter {
	var maps []*ssa.Parameter
	for _, p := range walk.Params {
		if _, ok := p.Type().Underlying().(*types.Map); ok {
			maps = append(maps, p)
		}
	}
	for _, p := range maps {
		isLk := func(v ssa.Value) bool {
			lk, ok := v.(*ssa.Lookup)
			return ok && resolveSpill(lk.X) == ssa.Value(p)
		}
		found := false
		for _, b := range walk.Blocks {
			if len(b.Instrs) == 0 {
				continue
			}
			ifi, ok := b.Instrs[len(b.Instrs)-1].(*ssa.If)
			if !ok {
				continue
			}
			ct, ok := decodeIf(ifi)
			if !ok || !dependsOn(ct.V, isLk) {
				continue
			}
			// the refusal hangs directly on the lookup: the `present` edge leads straight to a non-nil error return
			succ := b.Succs[0]
			if ct.TrueWhen == "false" {
				succ = b.Succs[1]
			}
			if len(succ.Instrs) > 0 {
				if ret, ok := succ.Instrs[len(succ.Instrs)-1].(*ssa.Return); ok && !isSuccessReturnPS(ret) {
					found = true
				}
			}
		}
		if found {
			return p
		}
	}
	if len(maps) == 1 {
		return maps[0]
	}
	return nil
}

// ancVisitedLookup: predicate for a lookup in a visited set of the ancestor walk: a map-typed parameter or captured
// variable that the walk writes and never deletes from.
func ancVisitedLookup(walk *ssa.Function) func(ssa.Value) bool {
	written, deleted := map[ssa.Value]bool{}, map[ssa.Value]bool{}
	withAnon(walk, func(g *ssa.Function) {
		allInstrs(g, func(in ssa.Instruction) {
			if mu, ok := in.(*ssa.MapUpdate); ok {
				written[resolveSpill(mu.Map)] = true
			}
			if c := callOf(in); c != nil {
				if b, ok := c.Value.(*ssa.Builtin); ok && b.Name() == "delete" && len(c.Args) == 2 {
					deleted[resolveSpill(c.Args[0])] = true
				}
			}
		})
	})
	return func(v ssa.Value) bool {
		lk, ok := v.(*ssa.Lookup)
		if !ok {
			return false
		}
		m := resolveSpill(lk.X)
		if _, isMap := m.Type().Underlying().(*types.Map); !isMap {
			return false
		}
		switch m.(type) {
		case *ssa.Parameter, *ssa.FreeVar:
		default:
			return false
		}
		return written[m] && !deleted[m]
	}
}

// ancVisitedEdges: the edges of the walk on which a lookup in the visited set said `already visited`.
func ancVisitedEdges(walk *ssa.Function) map[bedge]bool {
	isV := ancVisitedLookup(walk)
	out := map[bedge]bool{}
	for _, b := range walk.Blocks {
		if len(b.Instrs) == 0 {
			continue
		}
		ifi, ok := b.Instrs[len(b.Instrs)-1].(*ssa.If)
		if !ok {
			continue
		}
		ct, ok := decodeIf(ifi)
		if !ok || !dependsOn(ct.V, isV) {
			continue
		}
		if ct.TrueWhen == "true" {
			out[bedge{b, 0}] = true
		} else if ct.TrueWhen == "false" {
			out[bedge{b, 1}] = true
		}
	}
	return out
}

// SCHED-AGREE (C01): `scheduled` means the same everywhere.
func ruleSchedAgree(w *World, r *Report) {
	r.Rule("SCHED-AGREE", "premise: core.RuleFromJSON takes an empty `schedule` for no schedule (it compares Rule.Schedule with the empty string; checked).  Conclusion: every function of core and cron that looks up the key \"schedule\" in a rule's map representation either compares the value it finds with the empty string itself, or only hands the value back to callers.  A site that decides on the mere presence of the key disagrees with the parser: IndexedState.add then keeps a rule `{schedule:\"\", when:...}` out of the pattern index, and the rule is stored, listed and never dispatched (while LinearState dispatches it)", 2)
	rfj := w.Func("core", "RuleFromJSON")
	isEmptyStr := func(v ssa.Value) bool { s, ok := constString(v); return ok && s == "" }
	premise := false
	allInstrs(rfj, func(in ssa.Instruction) {
		if b, ok := in.(*ssa.BinOp); ok && (b.Op == token.EQL || b.Op == token.NEQ) && (isEmptyStr(b.X) || isEmptyStr(b.Y)) {
			other := b.X
			if isEmptyStr(b.X) {
				other = b.Y
			}
			if dependsOn(other, func(v ssa.Value) bool {
				n, f, _, ok := loadedField(v)
				return ok && typeKey(n) == "core.Rule" && f == "Schedule"
			}) {
				premise = true
			}
		}
	})
	if !premise {
		r.exempt("SCHED-AGREE", "premise", w.Pos(rfj.Pos()), "premise fails: RuleFromJSON does not compare Rule.Schedule with the empty string; nothing to agree with")
		return
	}
	n := 0
	for _, fn := range w.Funcs {
		rel := w.RelPkg(fn)
		if (rel != "core" && rel != "cron") || isTestFile(w, fn) {
			continue
		}
		var lookups []*ssa.Lookup
		allInstrs(fn, func(in ssa.Instruction) {
			if lk, ok := in.(*ssa.Lookup); ok {
				if k, isC := constString(lk.Index); isC && k == "schedule" {
					if _, isMap := lk.X.Type().Underlying().(*types.Map); isMap {
						lookups = append(lookups, lk)
					}
				}
			}
		})
		for _, lk := range lookups {
			n++
			key := "fn=" + fname(fn) + " lookup=schedule"
			if len(lookups) > 1 {
				key += "#" + itoa(len(lookups)-len(lookups[indexOfLookup(lookups, lk):])+1)
			}
			fromLk := func(v ssa.Value) bool { return v == ssa.Value(lk) }
			compares, returns := false, false
			allInstrs(fn, func(in ssa.Instruction) {
				switch t := in.(type) {
				case *ssa.BinOp:
					if (t.Op == token.EQL || t.Op == token.NEQ) && ((isEmptyStr(t.X) && dependsOn(t.Y, fromLk)) || (isEmptyStr(t.Y) && dependsOn(t.X, fromLk))) {
						compares = true
					}
				case *ssa.Return:
					for _, res := range t.Results {
						if _, isStr := res.Type().Underlying().(*types.Basic); isStr && dependsOn(res, fromLk) && res.Type().Underlying().(*types.Basic).Kind() == types.String {
							returns = true
						}
					}
				}
			})
			switch {
			case compares:
				r.ok("SCHED-AGREE", key, w.PosOf(lk), "compares the schedule it finds with the empty string")
			case returns:
				r.ok("SCHED-AGREE", key, w.PosOf(lk), "hands the schedule string to its callers")
			default:
				r.violation("SCHED-AGREE", key, w.PosOf(lk), "decides on the presence of the `schedule` key only: an empty schedule counts as scheduled here and as not scheduled for the parser")
			}
		}
	}
	if n == 0 {
		r.exempt("SCHED-AGREE", "lookup=schedule", "", "no function looks up the key \"schedule\": shape not recognised, not decided")
	}
}

func indexOfLookup(ls []*ssa.Lookup, l *ssa.Lookup) int {
	for i, x := range ls {
		if x == l {
			return i
		}
	}
	return 0
}

// IDX-KEYVAR (C01): a literal key does not hide the patterns with a variable in key position.
func ruleIdxKeyVar(w *World, r *Report) {
	r.Rule("IDX-KEYVAR", "PatternIndex.mod files a pattern pair whose key is a variable under the anonymous key \"?\" of the node (checked).  Therefore PatternIndex.searchPairs looks under \"?\" for every event key, not only when no pattern mentions the event's key literally: with the `key present` outcome of its lookup of the event's key forced, the lookup of \"?\" is still reachable.  Otherwise the rule {\"?p\":2} is skipped for the event {\"a\":2} as soon as some rule mentions \"a\"", 1)
	mod := w.Method("core", "PatternIndex", "mod")
	sp := w.Method("core", "PatternIndex", "searchPairs")
	key := "fn=" + fname(sp)
	isQ := func(v ssa.Value) bool { s, ok := constString(v); return ok && s == "?" }
	files := false
	allInstrs(mod, func(in ssa.Instruction) {
		// k = "?" reaches a lookup / update of a String map: a phi or store of the constant
		switch t := in.(type) {
		case *ssa.Phi:
			for _, e := range t.Edges {
				if isQ(e) {
					files = true
				}
			}
		case *ssa.Store:
			if isQ(t.Val) {
				files = true
			}
		case *ssa.Lookup:
			if isQ(t.Index) {
				files = true
			}
		case *ssa.MapUpdate:
			if isQ(t.Key) {
				files = true
			}
		}
	})
	if !files {
		r.exempt("IDX-KEYVAR", key, w.Pos(mod.Pos()), "premise fails: mod does not file variable keys under \"?\"; not decided by this rule")
		return
	}
	var qLookups []ssa.Instruction
	absent := map[bedge]bool{}
	nKeyLookups := 0
	for _, b := range sp.Blocks {
		for _, in := range b.Instrs {
			if lk, ok := in.(*ssa.Lookup); ok && isQ(lk.Index) {
				if _, isMap := lk.X.Type().Underlying().(*types.Map); isMap {
					qLookups = append(qLookups, in)
				}
			}
		}
		if len(b.Instrs) == 0 {
			continue
		}
		ifi, ok := b.Instrs[len(b.Instrs)-1].(*ssa.If)
		if !ok {
			continue
		}
		ct, ok := decodeIf(ifi)
		if !ok {
			continue
		}
		ex, ok := resolveSpill(ct.V).(*ssa.Extract)
		if !ok || ex.Index != 1 {
			continue
		}
		lk, ok := ex.Tuple.(*ssa.Lookup)
		if !ok || !lk.CommaOk {
			continue
		}
		if _, isC := lk.Index.(*ssa.Const); isC {
			continue
		}
		n, f, _, isField := loadedField(resolveSpill(lk.X))
		if !isField || typeKey(n) != "core.PatternIndex" || f != "String" {
			continue
		}
		// only the node's own key map (receiver), not the value map of the key node
		nKeyLookups++
		if ct.TrueWhen == "true" {
			absent[bedge{b, 1}] = true
		} else if ct.TrueWhen == "false" {
			absent[bedge{b, 0}] = true
		}
	}
	if len(qLookups) == 0 {
		r.violation("IDX-KEYVAR", key, w.Pos(sp.Pos()), "searchPairs never looks under the anonymous key \"?\": patterns with a variable in key position are never found")
		return
	}
	isQL := func(in ssa.Instruction) bool {
		for _, q := range qLookups {
			if q == in {
				return true
			}
		}
		return false
	}
	if h, _ := reach(sp, nil, isQL, nil, edgeFilterOf(absent)); h == nil {
		r.violation("IDX-KEYVAR", key, w.PosOf(qLookups[0]), "the anonymous key \"?\" is looked up only when the event's key is not a literal key of the node: a rule with a variable in key position is hidden by any rule that mentions the key")
		return
	}
	r.ok("IDX-KEYVAR", key, w.PosOf(qLookups[0]), "the anonymous key is tried whether or not the event's key is a literal key ("+itoa(nKeyLookups)+" key lookup(s))")
}

// assertedTypes: the types a function's type switch / comma-ok assertions on a value derived from pred test for.
func assertedTypes(fn *ssa.Function, pred func(ssa.Value) bool) map[string]bool {
	out := map[string]bool{}
	allInstrs(fn, func(in ssa.Instruction) {
		if ta, ok := in.(*ssa.TypeAssert); ok && dependsOn(ta.X, pred) {
			out[types.TypeString(ta.AssertedType, nil)] = true
		}
	})
	return out
}

// LESS-COVERS (C01): what typeCode calls sortable, Less can order.
func ruleLessCovers(w *World, r *Report) {
	r.Rule("LESS-COVERS", "every element type for which core.typeCode returns a non-zero code (IsSortable accepts a homogeneous array of it, so SortValues sorts it) has a case in ThingSlice.Less.  For a type without a case Less answers false for every pair: sort.Sort leaves the array as it is, a pattern array and an event array with the same members in different order are walked in different orders, and the indexed search misses the rule", 1)
	tc := w.Func("core", "typeCode")
	less := w.Method("core", "ThingSlice", "Less")
	key := "fn=" + fname(less)
	// typeCode: asserted types whose branch returns a non-zero constant
	sortable := map[string]bool{}
	allInstrs(tc, func(in ssa.Instruction) {
		ta, ok := in.(*ssa.TypeAssert)
		if !ok || !ta.CommaOk {
			return
		}
		// the `ok` extract controls a branch; on its true edge a constant is returned
		for _, ref := range *ta.Referrers() {
			ex, ok := ref.(*ssa.Extract)
			if !ok || ex.Index != 1 {
				continue
			}
			for _, ref2 := range *ex.Referrers() {
				ifi, ok := ref2.(*ssa.If)
				if !ok {
					continue
				}
				tb := ifi.Block().Succs[0]
				if len(tb.Instrs) > 0 {
					if ret, ok := tb.Instrs[len(tb.Instrs)-1].(*ssa.Return); ok && len(ret.Results) == 1 {
						if c, ok := ret.Results[0].(*ssa.Const); ok && c.Value != nil && c.Int64() != 0 {
							sortable[types.TypeString(ta.AssertedType, nil)] = true
						}
					}
				}
			}
		}
	})
	if len(sortable) == 0 {
		r.exempt("LESS-COVERS", key, w.Pos(tc.Pos()), "typeCode's type switch was not recognised: not decided")
		return
	}
	handled := assertedTypes(less, func(v ssa.Value) bool { return v == ssa.Value(less.Params[0]) })
	var missing []string
	for t := range sortable {
		if !handled[t] {
			missing = append(missing, t)
		}
	}
	sort.Strings(missing)
	if len(missing) > 0 {
		r.violation("LESS-COVERS", key, w.Pos(less.Pos()), "typeCode calls arrays of "+strings.Join(missing, ", ")+" sortable, but Less has no case for them: such arrays are never brought into one order")
		return
	}
	r.ok("LESS-COVERS", key, w.Pos(less.Pos()), itoa(len(sortable))+" sortable element types, each with a case in Less")
}

// PICAST-IDEM (C01): the index key cast is idempotent.
func rulePicastIdem(w *World, r *Report) {
	r.Rule("PICAST-IDEM", "core.picast is applied twice to the members of a pattern array (PatternIndex.mod casts them when it expands the array and again when it files each of them) and once to the members of an event array.  It is therefore idempotent on everything it returns: every string result is the input itself, or starts with one of the prefixes that picast's own guards (strings.HasPrefix) pass through unchanged.  A result that a second cast rewrites (\"null\" -> \"S_null\") files the pattern under a key the search never asks for", 3)
	pc := w.Func("core", "picast")
	key := "fn=" + fname(pc)
	guards := map[string]bool{}
	allInstrs(pc, func(in ssa.Instruction) {
		c, ok := in.(*ssa.Call)
		if !ok || !isPkgFunc(calleeObj(c.Common()), "strings", "HasPrefix") || len(c.Common().Args) != 2 {
			return
		}
		if s, ok := constString(c.Common().Args[1]); ok {
			guards[s] = true
		}
	})
	if len(guards) == 0 {
		r.exempt("PICAST-IDEM", key, w.Pos(pc.Pos()), "picast has no pass-through guards: shape not recognised, not decided")
		return
	}
	hasGuardPrefix := func(s string) bool {
		for g := range guards {
			if strings.HasPrefix(s, g) {
				return true
			}
		}
		return false
	}
	n := 0
	var check func(v ssa.Value, where string, seen map[ssa.Value]bool)
	check = func(v ssa.Value, where string, seen map[ssa.Value]bool) {
		v = resolveSpill(v)
		if seen[v] {
			return
		}
		seen[v] = true
		switch t := v.(type) {
		case *ssa.MakeInterface:
			check(t.X, where, seen)
		case *ssa.Phi:
			for _, e := range t.Edges {
				check(e, where, seen)
			}
		case *ssa.Const:
			if s, ok := constString(t); ok {
				n++
				if hasGuardPrefix(s) {
					r.ok("PICAST-IDEM", key+" result="+s, where, "passes through a second cast unchanged")
				} else {
					r.violation("PICAST-IDEM", key+" result="+s, where, "picast returns the constant \""+s+"\", which a second picast rewrites: the two sides of the index disagree about the key")
				}
			}
		case *ssa.BinOp:
			if t.Op == token.ADD {
				if s, ok := constString(t.X); ok {
					n++
					if hasGuardPrefix(s) {
						r.ok("PICAST-IDEM", key+" result="+s+"+...", where, "passes through a second cast unchanged")
					} else {
						r.violation("PICAST-IDEM", key+" result="+s+"+...", where, "picast returns a string with the prefix \""+s+"\", which a second picast rewrites")
					}
				}
			}
		}
	}
	allInstrs(pc, func(in ssa.Instruction) {
		if ret, ok := in.(*ssa.Return); ok {
			for _, res := range ret.Results {
				check(res, w.PosOf(in), map[ssa.Value]bool{})
			}
		}
	})
	if n == 0 {
		r.exempt("PICAST-IDEM", key, w.Pos(pc.Pos()), "no constant or prefixed string result found: shape not recognised, not decided")
	}
}

// sortWrapperOf: f(vs) calls g(vs) with its own parameter, g returns ([]interface{}, error), and f returns g's slice
// on the edge on which g's error is nil.  Returns g.
func sortWrapperOf(f *ssa.Function) *ssa.Function {
	if f == nil || len(f.Blocks) == 0 || len(f.Params) != 1 {
		return nil
	}
	var g *ssa.Function
	allInstrs(f, func(in ssa.Instruction) {
		c, ok := in.(*ssa.Call)
		if !ok || g != nil {
			return
		}
		callee := c.Common().StaticCallee()
		if callee == nil || callee == f || len(c.Common().Args) != 1 || c.Common().Args[0] != ssa.Value(f.Params[0]) {
			return
		}
		if errorResultIndex(callee.Signature) != 1 || callee.Signature.Results().Len() != 2 {
			return
		}
		// some return hands back the call's first result, under a test of its error
		allInstrs(f, func(x ssa.Instruction) {
			ret, ok := x.(*ssa.Return)
			if !ok || len(ret.Results) == 0 {
				return
			}
			ex, ok := resolveSpill(ret.Results[0]).(*ssa.Extract)
			if !ok || ex.Tuple != ssa.Value(c) || ex.Index != 0 {
				return
			}
			if controlDependsOn(f, x, func(v ssa.Value) bool {
				e, ok := v.(*ssa.Extract)
				return ok && e.Tuple == ssa.Value(c) && e.Index == 1
			}) {
				g = callee
			}
		})
	})
	return g
}

// IDX-SORT-TOTAL (C01, C04): an array in an event is never a reason to evaluate no rule at all.
func ruleIdxSortTotal(prop string) ruleFn {
	return func(w *World, r *Report) {
		r.Rule("IDX-SORT-TOTAL", "PatternIndex.searchPairs does not give up on an event array it cannot sort: no error return of searchPairs is control-dependent on the error of core.SortValues (which refuses arrays of mixed kinds and arrays with two or more maps or arrays).  The index returns a superset; an event whose array cannot be sorted can still match patterns with a variable, a single-member array pattern, or patterns on its other keys — and FindRules passes the error on, so *no* rule is evaluated for the event", 1)
		sp := w.Method("core", "PatternIndex", "searchPairs")
		sv := w.Func("core", "SortValues")
		key := "fn=" + fname(sp)
		n := 0
		bad := ""
		allInstrs(sp, func(in ssa.Instruction) {
			c, ok := in.(*ssa.Call)
			if !ok || c.Common().StaticCallee() != sv {
				return
			}
			n++
			isErr := func(v ssa.Value) bool {
				e, ok := v.(*ssa.Extract)
				return ok && e.Tuple == ssa.Value(c) && e.Index == 1
			}
			allInstrs(sp, func(x ssa.Instruction) {
				if _, ok := x.(*ssa.Return); ok && !isSuccessReturnPS(x) && controlDependsOn(sp, x, isErr) && reachable(sp, in, x) {
					// the refusal hangs on the error of the sort
					if dependsOnErrOf(x.(*ssa.Return), c) {
						bad = w.PosOf(x)
					}
				}
			})
		})
		if bad != "" {
			r.violation("IDX-SORT-TOTAL", key, bad, "searchPairs returns SortValues' error for an event array it cannot sort: the whole event fails and no rule is evaluated")
			return
		}
		r.ok("IDX-SORT-TOTAL", key, w.Pos(sp.Pos()), itoa(n)+" direct call(s) of SortValues in searchPairs, none of whose errors ends the search")
	}
}

// dependsOnErrOf: the error result of ret derives from the error result of call c.
func dependsOnErrOf(ret *ssa.Return, c *ssa.Call) bool {
	idx := errorResultIndex(ret.Parent().Signature)
	if idx < 0 || idx >= len(ret.Results) {
		return false
	}
	return dependsOn(ret.Results[idx], func(v ssa.Value) bool {
		e, ok := v.(*ssa.Extract)
		return ok && e.Tuple == ssa.Value(c) && e.Index == 1
	})
}

// LOST-RULE-SKIP (C01): a candidate that went away during the scan does not fail the event.
func ruleLostRuleSkip(w *World, r *Report) {
	r.Rule("LOST-RULE-SKIP", "IndexedState.doFindRules collects the candidate ids from the rule index and then visits them; visiting one (finding it expired) can remove others (its deleteWith dependents) before the loop reaches them.  Therefore, from the lookup of a candidate in IdToFact, with the `present` outcome deleted, no error return is reachable: a candidate that is gone is skipped.  Failing instead makes the event fail for every rule, including the unrelated ones that match", 1)
	fn := collectorOf(w, w.Method("core", "IndexedState", "doFindRules"))
	key := "fn=" + fname(fn)
	present := map[bedge]bool{}
	var lookups []ssa.Instruction
	for _, b := range fn.Blocks {
		for _, in := range b.Instrs {
			if lk, ok := in.(*ssa.Lookup); ok && lk.CommaOk && isFieldLoad(lk.X, idxState, "IdToFact") {
				lookups = append(lookups, in)
			}
		}
		if len(b.Instrs) == 0 {
			continue
		}
		ifi, ok := b.Instrs[len(b.Instrs)-1].(*ssa.If)
		if !ok {
			continue
		}
		ct, ok := decodeIf(ifi)
		if !ok {
			continue
		}
		ex, ok := resolveSpill(ct.V).(*ssa.Extract)
		if !ok || ex.Index != 1 {
			continue
		}
		lk, ok := ex.Tuple.(*ssa.Lookup)
		if !ok || !lk.CommaOk || !isFieldLoad(lk.X, idxState, "IdToFact") {
			continue
		}
		if ct.TrueWhen == "true" {
			present[bedge{b, 0}] = true
		} else if ct.TrueWhen == "false" {
			present[bedge{b, 1}] = true
		}
	}
	if len(lookups) == 0 || len(present) == 0 {
		r.exempt("LOST-RULE-SKIP", key, w.Pos(fn.Pos()), "doFindRules does not test a comma-ok lookup in IdToFact: shape not recognised, not decided")
		return
	}
	isErrRet := func(in ssa.Instruction) bool {
		_, ok := in.(*ssa.Return)
		return ok && !isSuccessReturnPS(in)
	}
	for _, lk := range lookups {
		if h, path := reach(fn, lk, isErrRet, nil, edgeFilterOf(present)); h != nil {
			r.violation("LOST-RULE-SKIP", key, w.PosOf(h), "a candidate whose fact is gone (removed by the expiry cascade of an earlier candidate) makes doFindRules fail: no rule is evaluated for the event", blockPathString(w, path)...)
			return
		}
	}
	r.ok("LOST-RULE-SKIP", key, w.PosOf(lookups[0]), "a candidate that is gone is skipped")
}

// EXP-TTL-RELATIVE (C07): a ttl is relative to now, whatever its Go type.
func ruleExpTTLRelative(w *World, r *Report) {
	r.Rule("EXP-TTL-RELATIVE", "in setExpires every value that is written back as `expires` for a fact that came with a `ttl` depends on the clock: the value stored under the key \"expires\" on the ttl path is a merge of one value per accepted ttl type (number, string), and each of them derives from NowSecs / time.Now.  A type whose ttl is taken as it is (`case int64: expires = vv`) turns `ttl: 5` into the instant 5 s after the epoch — the write is refused as expired, and a large ttl becomes an absolute instant instead of now + ttl.  (otto hands integer literals over as int64, so a script's `ttl: 5` takes that path.)", 1)
	fn := w.Func("core", "setExpires")
	key := "fn=" + fname(fn)
	isClock := func(v ssa.Value) bool {
		c, ok := v.(*ssa.Call)
		if !ok {
			return false
		}
		f := c.Common().StaticCallee()
		return f != nil && (f.Name() == "NowSecs" || (f.Pkg != nil && f.Pkg.Pkg.Path() == "time" && f.Name() == "Now"))
	}
	isTTLLookup := func(v ssa.Value) bool {
		lk, ok := v.(*ssa.Lookup)
		if !ok {
			return false
		}
		k, ok := constKey(lk.Index)
		return ok && k == "ttl"
	}
	n := 0
	bad := ""
	allInstrs(fn, func(in ssa.Instruction) {
		mu, ok := in.(*ssa.MapUpdate)
		if !ok {
			return
		}
		if k, ok := constKey(mu.Key); !ok || k != "expires" {
			return
		}
		if !controlDependsOn(fn, in, isTTLLookup) {
			return
		}
		v := mu.Value
		if mi, ok := v.(*ssa.MakeInterface); ok {
			v = mi.X
		}
		var leaves []ssa.Value
		var walk func(x ssa.Value, seen map[ssa.Value]bool)
		walk = func(x ssa.Value, seen map[ssa.Value]bool) {
			if seen[x] {
				return
			}
			seen[x] = true
			if p, ok := x.(*ssa.Phi); ok {
				for _, e := range p.Edges {
					walk(e, seen)
				}
				return
			}
			leaves = append(leaves, x)
		}
		walk(v, map[ssa.Value]bool{})
		for _, l := range leaves {
			if c, ok := l.(*ssa.Const); ok && c.Value != nil && c.Int64() == 0 {
				continue // the zero the variable starts with (error paths return before the store)
			}
			n++
			if !dependsOn(l, isClock) {
				bad = "a ttl value is written back as `expires` without the clock (" + l.String() + ")"
			}
		}
	})
	switch {
	case n == 0:
		r.exempt("EXP-TTL-RELATIVE", key, w.Pos(fn.Pos()), "no store of `expires` on the ttl path found: shape not recognised, not decided")
	case bad != "":
		r.violation("EXP-TTL-RELATIVE", key, w.Pos(fn.Pos()), bad+": for that type the ttl is taken as an absolute instant")
	default:
		r.ok("EXP-TTL-RELATIVE", key, w.Pos(fn.Pos()), itoa(n)+" ttl encodings, each relative to the clock")
	}
}

// EXP-CANON-FIRST (C07): the expiry is canonicalised before the rule is validated.
func ruleExpCanonFirst(w *World, r *Report) {
	r.Rule("EXP-CANON-FIRST", "premise: core.Rule.Expires is a number, while setExpires accepts an `expires` given as an RFC3339 string and rewrites it as a number (checked: the field's type; setExpires parses with time.Parse).  Conclusion: in Location.AddRule every path to the validation of the rule map (RuleFromMap, which round-trips it through JSON into a Rule) passes setExpires on that same map first.  Validating first refuses every rule whose `expires` is given in the string encoding the property names", 1)
	fn := w.Method("core", "Location", "AddRule")
	key := "fn=" + fname(fn)
	se := w.Func("core", "setExpires")
	rfm := w.Func("core", "RuleFromMap")
	// premise
	ruleT := structOf(w.Named("core", "Rule"))
	numeric := false
	if ruleT != nil {
		for i := 0; i < ruleT.NumFields(); i++ {
			if f := ruleT.Field(i); f.Name() == "Expires" {
				if b, ok := f.Type().Underlying().(*types.Basic); ok && b.Info()&types.IsNumeric != 0 {
					numeric = true
				}
			}
		}
	}
	if !numeric {
		r.exempt("EXP-CANON-FIRST", key, w.Pos(fn.Pos()), "premise fails: Rule.Expires is not a plain number any more; not decided by this rule")
		return
	}
	isSE := func(in ssa.Instruction) bool { c := callOf(in); return c != nil && c.StaticCallee() == se }
	isRFM := func(in ssa.Instruction) bool { c := callOf(in); return c != nil && c.StaticCallee() == rfm }
	n, misses := mustPrecede(fn, isSE, isRFM)
	switch {
	case n == 0:
		r.exempt("EXP-CANON-FIRST", key, w.Pos(fn.Pos()), "AddRule does not call RuleFromMap: shape not recognised, not decided")
	case len(misses) > 0:
		r.violation("EXP-CANON-FIRST", key, w.PosOf(misses[0].Exit), "the rule map is validated before its `expires` was canonicalised: a rule with an RFC3339 `expires` is refused (cannot unmarshal string into a number)")
	default:
		r.ok("EXP-CANON-FIRST", key, w.Pos(fn.Pos()), "setExpires runs before RuleFromMap on every path")
	}
}

// CASC-LOAD (C08, C06): an expiry noticed while loading cascades like any other.
func ruleCascLoad(prop string) ruleFn {
	return func(w *World, r *Report) {
		r.Rule("CASC-LOAD", "a State implementation's Load that removes a stored record directly from storage (Storage.Remove with a key built from the record's id — what IndexedState.Load does with a fact it finds expired, because nothing is in memory yet) also hands that id to the type's deleteDependencies: some call of deleteDependencies in Load takes an id that derives from the removed one (typically through a list filled in the loop and walked after it).  A bare removal leaves the facts that name the expired one in deleteWith behind — for ever, since their target is gone — whereas the same expiry noticed in a loaded location removes them", 1)
		a := newLocAnchors(w)
		n := 0
		for nt := range a.stateImp {
			load := w.TryMethod(typeRel(nt), nt.Obj().Name(), "Load")
			dd := w.TryMethod(typeRel(nt), nt.Obj().Name(), "deleteDependencies")
			if load == nil {
				continue
			}
			var removes []ssa.Instruction
			allInstrs(load, func(in ssa.Instruction) {
				if d, ok := isStorageMutation(w, in); ok && strings.HasSuffix(d, "Remove") {
					removes = append(removes, in)
				}
			})
			if len(removes) == 0 {
				continue
			}
			n++
			key := "fn=" + fname(load)
			ok := false
			for _, rm := range removes {
				c := callOf(rm)
				keyArg := c.Args[len(c.Args)-1]
				// the string the key was converted from
				var idv ssa.Value
				if cv, isC := keyArg.(*ssa.Convert); isC {
					idv = cv.X
				}
				if idv == nil || dd == nil {
					continue
				}
				allInstrs(load, func(in ssa.Instruction) {
					cc := callOf(in)
					if cc == nil || cc.StaticCallee() != dd || len(cc.Args) < 3 {
						return
					}
					if dependsOn(cc.Args[2], func(v ssa.Value) bool { return v == idv }) {
						ok = true
					}
				})
			}
			if ok {
				r.ok("CASC-LOAD", key, w.PosOf(removes[0]), "the ids removed at load are handed to deleteDependencies")
			} else {
				r.violation("CASC-LOAD", key, w.PosOf(removes[0]), "Load removes a record from storage without cascading to the facts that name it in deleteWith")
			}
		}
		if n == 0 {
			r.info("CASC-LOAD", "none", "", "no State implementation's Load removes records from storage")
		}
	}
}

// CASC-NOVAR (C08): an id is data, not a pattern variable.
func ruleCascNoVar(w *World, r *Report) {
	r.Rule("CASC-NOVAR", "each State implementation's deleteDependencies finds the dependents of an id by searching for the pattern {deleteWith:[id]}; a string that starts with `?` is a variable in a pattern.  Therefore the search is control-dependent on a test of IsVariable(id) (or the id is quoted): otherwise removing the id `?x` — even if no such fact exists — matches, and removes, every fact that has any deleteWith: `nothing else is deleted` fails for every property, flag and dependent rule of the location", 2)
	a := newLocAnchors(w)
	isVar := w.Func("core", "IsVariable")
	for nt := range a.stateImp {
		dd := w.TryMethod(typeRel(nt), nt.Obj().Name(), "deleteDependencies")
		if dd == nil || len(dd.Params) < 3 {
			continue
		}
		key := "fn=" + fname(dd)
		idp := ssa.Value(dd.Params[2])
		owner := typeKey(nt)
		var searches []ssa.Instruction
		allInstrs(dd, func(in ssa.Instruction) {
			c := callOf(in)
			if c == nil {
				return
			}
			if f := c.StaticCallee(); f != nil && f.Signature.Recv() != nil && strings.HasPrefix(strings.ToLower(f.Name()), "search") {
				if rn := namedOf(f.Signature.Recv().Type()); rn != nil && typeKey(rn) == owner {
					searches = append(searches, in)
				}
			}
		})
		if len(searches) == 0 {
			r.exempt("CASC-NOVAR", key, w.Pos(dd.Pos()), "deleteDependencies does not call a search of its own type: shape not recognised, not decided")
			continue
		}
		guard := func(v ssa.Value) bool {
			c, ok := v.(*ssa.Call)
			if !ok || c.Common().StaticCallee() != isVar || len(c.Common().Args) != 1 {
				return false
			}
			return dependsOn(c.Common().Args[0], func(x ssa.Value) bool { return x == idp })
		}
		ok := true
		for _, s := range searches {
			if !controlDependsOn(dd, s, guard) {
				ok = false
				r.violation("CASC-NOVAR", key, w.PosOf(s), "the id goes into the search pattern as it is: an id that starts with `?` is a variable there and matches everybody's deleteWith")
			}
		}
		if ok {
			r.ok("CASC-NOVAR", key, w.PosOf(searches[0]), "no cascade is searched for an id that would be a variable")
		}
	}
}

// FACTIDX-LAST (C02, C06): the fact index changes only when nothing can refuse the write any more.
func ruleFactIdxLast(prop string) ruleFn {
	return func(w *World, r *Report) {
		r.Rule("FACTIDX-LAST", "in IndexedState.add (the in-memory half of every write) the term index of the facts (FactIndex) is changed only after the last point at which the write can still be refused: no error return is reachable from a call that adds to or removes from FactIndex.  The index is keyed by (term, id), not by fact version: removing the `new` terms of a refused overwrite takes the id out of every term it shares with the fact that is still stored, and un-indexing the old fact before the refusal points does the same — the stored fact is returned by Get and after a reload but no search finds it", 1)
		fn := w.Method("core", "IndexedState", "add")
		key := "fn=" + fname(fn)
		isFI := func(in ssa.Instruction) bool {
			c := callOf(in)
			if c == nil || len(c.Args) == 0 {
				return false
			}
			f := c.StaticCallee()
			if f == nil || f.Signature.Recv() == nil {
				return false
			}
			rn := namedOf(f.Signature.Recv().Type())
			if rn == nil || typeKey(rn) != "core.TermIndex" {
				return false
			}
			switch f.Name() {
			case "Add", "Rem", "RemIdTerms", "RemID":
			default:
				return false
			}
			return isFieldLoad(c.Args[0], idxState, "FactIndex")
		}
		isErrRet := func(in ssa.Instruction) bool {
			_, ok := in.(*ssa.Return)
			return ok && !isSuccessReturnPS(in)
		}
		// ... or every refusal after the change undoes it: it passes a call that puts terms (back) into the index —
		// directly, or in a helper of the state that does so whatever its other arguments are (`reindex(id, rule,
		// terms)` with `if rule == nil { return }` in front of the loop over the terms does not)
		isTermIndexAdd := func(in ssa.Instruction) bool {
			c := callOf(in)
			if c == nil || len(c.Args) == 0 || c.StaticCallee() == nil || c.StaticCallee().Signature.Recv() == nil {
				return false
			}
			rn := namedOf(c.StaticCallee().Signature.Recv().Type())
			return rn != nil && typeKey(rn) == "core.TermIndex" && c.StaticCallee().Name() == "Add" && isFieldLoad(c.Args[0], idxState, "FactIndex")
		}
		undoes := func(in ssa.Instruction) bool {
			if isTermIndexAdd(in) {
				return true
			}
			c := callOf(in)
			if c == nil || c.StaticCallee() == nil || c.StaticCallee() == fn || len(c.StaticCallee().Blocks) == 0 {
				return false
			}
			h := c.StaticCallee()
			if rn := namedOf(recvType(h)); (rn == nil || typeKey(rn) != idxState) && h.Parent() != fn {
				return false
			}
			ok := false
			allInstrs(h, func(x ssa.Instruction) {
				if !isTermIndexAdd(x) {
					return
				}
				// not hanging on a nil test of another argument
				hangs := controlDependsOnClassic(h, x, func(v ssa.Value) bool {
					b, isB := v.(*ssa.BinOp)
					if !isB || (b.Op != token.EQL && b.Op != token.NEQ) {
						return false
					}
					if !isNilConst(b.X) && !isNilConst(b.Y) {
						return false
					}
					given := func(v ssa.Value) bool {
						if u, isU := v.(*ssa.UnOp); isU && u.Op == token.MUL {
							v = u.X
						}
						switch v.(type) {
						case *ssa.Parameter, *ssa.FreeVar:
							return true
						}
						return false
					}
					return given(b.X) || given(b.Y)
				}, nil)
				if !hangs {
					ok = true
				}
			})
			return ok
		}
		n := 0
		var bad, badRet ssa.Instruction
		allInstrs(fn, func(in ssa.Instruction) {
			if !isFI(in) {
				return
			}
			n++
			if h, _ := reach(fn, in, isErrRet, undoes, nil); h != nil && bad == nil {
				bad, badRet = in, h
			}
		})
		switch {
		case n == 0:
			r.exempt("FACTIDX-LAST", key, w.Pos(fn.Pos()), "add does not touch FactIndex: shape not recognised, not decided")
		case bad != nil:
			r.violation("FACTIDX-LAST", key, w.PosOf(bad), "the fact index is changed here, and the write can still be refused afterwards (at "+w.PosOf(badRet)+"): a refused overwrite leaves the stored fact without (some of) its terms")
		default:
			r.ok("FACTIDX-LAST", key, w.Pos(fn.Pos()), itoa(n)+" change(s) of the fact index, none before a refusal point")
		}
	}
}

// BIND-PRESENCE (C05, C03): bound means present, not non-nil.
func ruleBindPresence(prop string) ruleFn {
	return func(w *World, r *Report) {
		r.Rule("BIND-PRESENCE", "Bindings.Bind substitutes a variable when the bindings *have* it: the lookup of the variable in the bindings map is a comma-ok lookup and the substitution is decided by its presence flag.  A variable bound to JSON null (`{\"lost\":null}` matched by `{\"lost\":\"?o\"}`) is bound; deciding by `value != nil` searches the condition's pattern with that variable free, ExtendBindings then overwrites the caller's null, and the rule fires for unrelated facts", 1)
		fn := w.Method("core", "Bindings", "Bind")
		key := "fn=" + fname(fn)
		n := 0
		bad := ""
		allInstrs(fn, func(in ssa.Instruction) {
			lk, ok := in.(*ssa.Lookup)
			if !ok {
				return
			}
			mt, isMap := lk.X.Type().Underlying().(*types.Map)
			if !isMap {
				return
			}
			if b, ok := mt.Key().Underlying().(*types.Basic); !ok || b.Kind() != types.String {
				return
			}
			// the receiver's own map (bs), not the pattern
			if !dependsOn(lk.X, func(v ssa.Value) bool { return v == ssa.Value(fn.Params[0]) }) {
				return
			}
			n++
			if !lk.CommaOk {
				bad = w.PosOf(in)
			}
		})
		switch {
		case n == 0:
			r.exempt("BIND-PRESENCE", key, w.Pos(fn.Pos()), "Bind does not look a variable up in its bindings: shape not recognised, not decided")
		case bad != "":
			r.violation("BIND-PRESENCE", key, bad, "the variable is looked up without the presence flag: a variable bound to null counts as unbound")
		default:
			r.ok("BIND-PRESENCE", key, w.Pos(fn.Pos()), "substitution is decided by presence")
		}
	}
}

// HOOK-REM-MISSING (C15): nothing stored means nothing to unschedule, not a refusal.
func ruleHookRemMissing(w *World, r *Report) {
	r.Rule("HOOK-REM-MISSING", "the removal hook installed by cron.AddHooks looks the fact up (State.Get) to learn whether it is a scheduled rule.  When the lookup answers NotFound — the id is not stored, or the fact has expired and the lookup itself just removed it — the hook has nothing to unschedule and accepts: a success return is control-dependent on a test of the lookup's error for *core.NotFoundError.  A hook that hands the NotFound on refuses the removal: ClearLocation fails as a whole as soon as one fact has expired unnoticed (and the rules it was to remove stay in service), and removing an id that is not there is an error through a System while it is a no-op on a bare state", 1)
	cr := w.Named("cron", "Cronner")
	st := w.Named("core", "State")
	nf := w.Named("core", "NotFoundError")
	ah := w.Func("cron", "AddHooks")
	n := 0
	for _, fn := range ah.AnonFuncs {
		var gets []*ssa.Call
		hasRem, hasSched := false, false
		allInstrs(fn, func(in ssa.Instruction) {
			c := callOf(in)
			if c == nil {
				return
			}
			if isIfaceMethodCall(c, cr, "Rem") {
				hasRem = true
			}
			if isIfaceMethodCall(c, cr, "ScheduleEvent") {
				hasSched = true
			}
			if isIfaceMethodCall(c, st, "Get") {
				if call, ok := in.(*ssa.Call); ok {
					gets = append(gets, call)
				}
			}
		})
		if !hasRem || hasSched || len(gets) == 0 {
			continue // not the removal hook
		}
		n++
		key := "hook=" + fname(fn)
		isNFTest := func(v ssa.Value) bool {
			ta, ok := v.(*ssa.TypeAssert)
			if !ok {
				return false
			}
			p, ok := ta.AssertedType.(*types.Pointer)
			if !ok || !types.Identical(p.Elem(), nf) {
				return false
			}
			return dependsOn(ta.X, func(x ssa.Value) bool {
				e, ok := x.(*ssa.Extract)
				if !ok || e.Index != 1 {
					return false
				}
				for _, g := range gets {
					if e.Tuple == ssa.Value(g) {
						return true
					}
				}
				return false
			})
		}
		accepted := false
		allInstrs(fn, func(in ssa.Instruction) {
			if _, ok := in.(*ssa.Return); ok && isSuccessReturnPS(in) && controlDependsOn(fn, in, isNFTest) {
				accepted = true
			}
		})
		if accepted {
			r.ok("HOOK-REM-MISSING", key, w.PosOf(gets[0]), "a lookup that finds nothing accepts the removal")
		} else {
			r.violation("HOOK-REM-MISSING", key, w.PosOf(gets[0]), "the hook returns the lookup's NotFound: an id that is not (or, expired, no longer) stored makes the removal — and a whole Clear — fail")
		}
	}
	if n == 0 {
		r.exempt("HOOK-REM-MISSING", "hook=none", w.Pos(ah.Pos()), "no closure of AddHooks both looks the fact up and calls Cronner.Rem without scheduling: shape not recognised")
	}
}

// CLEAR-ACK (C06, C02): memory is wiped only when storage was.
func ruleClearAck(prop string) ruleFn {
	return func(w *World, r *Report) {
		r.Rule("CLEAR-ACK", "in every State implementation's Clear and Delete, the in-memory fact map is replaced by an empty one (directly, or in a method of the same type such as init) only under a test of the error of Storage.Clear / Storage.Delete: if the storage refuses, the operation reports the error and the location still has what storage has.  Wiping memory regardless gives an empty live location whose facts and rules all come back with the next reload — after an operation that was reported as failed", 4)
		a := newLocAnchors(w)
		for nt := range a.stateImp {
			owner := typeKey(nt)
			ff := stateFactField[owner]
			if ff == "" {
				continue
			}
			// methods of the type that reset the fact map
			resets := map[*ssa.Function]bool{}
			isReset := func(in ssa.Instruction) bool {
				st, ok := storesToField(in, owner, ff)
				if !ok {
					return false
				}
				_, isMake := st.Val.(*ssa.MakeMap)
				return isMake
			}
			for _, m := range w.MethodsOf(nt) {
				allInstrs(m, func(in ssa.Instruction) {
					if isReset(in) {
						resets[m] = true
					}
				})
			}
			for _, name := range []string{"Clear", "Delete"} {
				fn := w.TryMethod(typeRel(nt), nt.Obj().Name(), name)
				if fn == nil {
					continue
				}
				key := "fn=" + fname(fn)
				var stCalls []*ssa.Call
				allInstrs(fn, func(in ssa.Instruction) {
					if d, ok := isStorageMutation(w, in); ok && (strings.HasSuffix(d, "Clear") || strings.HasSuffix(d, "Delete")) {
						if c, ok := in.(*ssa.Call); ok {
							stCalls = append(stCalls, c)
						}
					}
				})
				if len(stCalls) == 0 {
					r.exempt("CLEAR-ACK", key, w.Pos(fn.Pos()), "no Storage.Clear / Delete call here: shape not recognised, not decided")
					continue
				}
				isErr := func(v ssa.Value) bool {
					for _, c := range stCalls {
						if v == ssa.Value(c) && isErrorType(c.Type()) {
							return true
						}
						if e, ok := v.(*ssa.Extract); ok && e.Tuple == ssa.Value(c) && isErrorType(e.Type()) {
							return true
						}
					}
					return false
				}
				var wipes []ssa.Instruction
				allInstrs(fn, func(in ssa.Instruction) {
					if _, isDefer := in.(*ssa.Defer); isDefer {
						return
					}
					if isReset(in) {
						wipes = append(wipes, in)
					}
					if c := callOf(in); c != nil {
						if f := c.StaticCallee(); f != nil && f != fn && resets[f] {
							wipes = append(wipes, in)
						}
					}
				})
				if len(wipes) == 0 {
					r.exempt("CLEAR-ACK", key, w.Pos(fn.Pos()), "the fact map is not reset here: shape not recognised, not decided")
					continue
				}
				bad := false
				for _, wi := range wipes {
					if !controlDependsOn(fn, wi, isErr) {
						bad = true
						r.violation("CLEAR-ACK", key, w.PosOf(wi), "memory is wiped whatever the storage answered: after a refused "+name+" the live location is empty and a reloaded one is not")
					}
				}
				if !bad {
					r.ok("CLEAR-ACK", key, w.PosOf(wipes[0]), "memory is wiped only when the storage was")
				}
			}
		}
	}
}

// QUERY-PURE (C03, C04): a query term does not write through what it was handed.
func ruleQueryPure(prop string) ruleFn {
	return func(w *World, r *Report) {
		r.Rule("QUERY-PURE", "no Exec of a core.Query implementation writes through the QueryResult it receives (MOD summaries as for MOD-PURE: the slice of binding sets, and each binding map in it): `or` hands the same incoming binding set to every disjunct, EvalRuleCondition hands the `when` match's own maps to the condition, and a cached rule's parsed condition is evaluated for event after event.  A term that adds its results to the incoming map (a `code` term that returns additional bindings) or filters the incoming slice in place (`not`) changes what its siblings, the work tree and the next evaluation see: actions run with the union of bindings that belong to different alternatives", 5)
		q := w.Iface("core", "Query")
		m := newModEngine(w, nil)
		n := 0
		for _, nt := range w.Implementers(q) {
			fn := w.TryMethod(typeRel(nt), nt.Obj().Name(), "Exec")
			if fn == nil || isTestFile(w, fn) {
				continue
			}
			for pi, p := range fn.Params {
				if nn := namedOf(p.Type()); nn == nil || typeKey(nn) != "core.QueryResult" {
					continue
				}
				n++
				key := "fn=" + fname(fn) + " param=" + p.Name()
				if ok, why := m.mutatesParam(fn, pi); ok {
					r.violation("QUERY-PURE", key, w.Pos(fn.Pos()), "the incoming result can be written through: "+why)
				} else {
					r.ok("QUERY-PURE", key, w.Pos(fn.Pos()), "never written through")
				}
			}
		}
		if n == 0 {
			r.exempt("QUERY-PURE", "impl=none", "", "no Query implementation with a QueryResult parameter found: not decided")
		}
	}
}

// EXP-PARSE-EXACT (C07): a given instant is not moved when it is turned into seconds.
func ruleExpParseExact(w *World, r *Report) {
	r.Rule("EXP-PARSE-EXACT", "in setExpires the seconds kept for an `expires` given as a string derive from the parsed time only through methods that cannot move the instant later (UTC, In, Unix, Truncate): `Round` (or adding something) stores an instant up to half a second after the one that was given, the item is returned and dispatched during that time, and the moved instant is what is persisted", 1)
	fn := w.Func("core", "setExpires")
	key := "fn=" + fname(fn)
	allowed := map[string]bool{"UTC": true, "In": true, "Unix": true, "Truncate": true, "Local": true}
	n := 0
	bad := ""
	allInstrs(fn, func(in ssa.Instruction) {
		c, ok := in.(*ssa.Call)
		if !ok {
			return
		}
		f := c.Common().StaticCallee()
		if f == nil || f.Pkg == nil || f.Pkg.Pkg.Path() != "time" || f.Signature.Recv() == nil {
			return
		}
		rn := namedOf(f.Signature.Recv().Type())
		if rn == nil || rn.Obj().Name() != "Time" || len(c.Common().Args) == 0 {
			return
		}
		// only the chain that starts at time.Parse
		if !dependsOn(c.Common().Args[0], func(v ssa.Value) bool {
			pc, ok := v.(*ssa.Call)
			return ok && isPkgFunc(calleeObj(pc.Common()), "time", "Parse")
		}) {
			return
		}
		n++
		if !allowed[f.Name()] {
			bad = "time.Time." + f.Name() + " at " + w.PosOf(in)
		}
	})
	switch {
	case n == 0:
		r.exempt("EXP-PARSE-EXACT", key, w.Pos(fn.Pos()), "no method is applied to a parsed time here: shape not recognised, not decided")
	case bad != "":
		r.violation("EXP-PARSE-EXACT", key, w.Pos(fn.Pos()), "the parsed expiry goes through "+bad+", which can move the instant later")
	default:
		r.ok("EXP-PARSE-EXACT", key, w.Pos(fn.Pos()), itoa(n)+" method call(s) on the parsed time, none of which can move the instant later")
	}
}

// FAN-MODE-LOCAL (C04): serial or concurrent is decided per rule, by that rule.
func ruleFanModeLocal(w *World, r *Report) {
	r.Rule("FAN-MODE-LOCAL", "in Location.WorkWalk the branch that chooses between running a rule's actions one after the other (and stopping at the first failure) and running them concurrently is decided by the rule at hand only: its condition does not depend on a value carried from one iteration of the loop over the dispatched rules to the next (a non-integer phi at the head of an enclosing loop; the integer induction variable of the range is the loop's own business).  A flag that is set for a rule with `serialActions` and merely left alone for a rule without `policies` makes the second rule serial when it happens to be walked after the first: a failing action then prevents the rule's other actions although the rule did not ask for that", 1)
	fn := w.Method("core", "Location", "WorkWalk")
	key := "fn=" + fname(fn)
	var gos []ssa.Instruction
	allInstrs(fn, func(in ssa.Instruction) {
		if _, ok := in.(*ssa.Go); ok {
			gos = append(gos, in)
		}
	})
	if len(gos) == 0 {
		r.exempt("FAN-MODE-LOCAL", key, w.Pos(fn.Pos()), "WorkWalk starts no goroutine: shape not recognised, not decided")
		return
	}
	loops := naturalLoops(fn)
	carried := func(v ssa.Value) bool {
		p, ok := v.(*ssa.Phi)
		if !ok {
			return false
		}
		if b, isB := p.Type().Underlying().(*types.Basic); isB && b.Info()&types.IsInteger != 0 {
			return false
		}
		for _, l := range loops {
			if l.Header != p.Block() {
				continue
			}
			// an edge that comes from inside the loop
			for i, pred := range p.Block().Preds {
				if l.Body[pred] && i < len(p.Edges) {
					if _, isConst := p.Edges[i].(*ssa.Const); !isConst {
						return true
					}
				}
			}
		}
		return false
	}
	n := 0
	bad := ""
	badGlobal := ""
	goBlock := gos[0].Block()
	for _, b := range fn.Blocks {
		if len(b.Instrs) == 0 || !b.Dominates(goBlock) {
			continue
		}
		ifi, ok := b.Instrs[len(b.Instrs)-1].(*ssa.If)
		if !ok {
			continue
		}
		r0 := b.Succs[0] == goBlock || blockReaches(b.Succs[0], goBlock, b)
		r1 := b.Succs[1] == goBlock || blockReaches(b.Succs[1], goBlock, b)
		if r0 == r1 {
			continue
		}
		// the other branch must contain calls of an action's Do (the serial alternative), not an exit
		n++
		if dependsOn(ifi.Cond, carried) {
			bad = w.PosOf(ifi)
		}
	}
	// ... and what makes a failed action the end of the walk is the rule's own policy, and nothing else: the early
	// return inside the loop that runs the actions one after the other lies behind the true edge of a test whose
	// condition is made of the rule's `SerialActions` (and nil tests) only — no package-level setting in it, directly
	// or through the branches that feed a phi.  (Running the actions sequentially because of a process-wide setting is
	// fine; stopping at the first failure because of it is not.)
	{
		// a process-wide *setting*: a field of a package-level structure (SystemParameters.X), or a package-level
		// variable of a basic type — not a sentinel that values are compared with (`Complete`)
		isGlobal := func(v ssa.Value) bool {
			u, ok := v.(*ssa.UnOp)
			if !ok || u.Op != token.MUL {
				return false
			}
			cur := u.X
			fields := 0
			for {
				switch t := cur.(type) {
				case *ssa.FieldAddr:
					cur = t.X
					fields++
					continue
				case *ssa.UnOp:
					if t.Op == token.MUL {
						cur = t.X
						continue
					}
				case *ssa.Global:
					if fields > 0 {
						return true
					}
					if pt, isP := t.Type().(*types.Pointer); isP {
						_, basic := pt.Elem().Underlying().(*types.Basic)
						return basic
					}
				}
				return false
			}
		}
		isPolicy := func(v ssa.Value) bool {
			_, f, _, ok := loadedField(v)
			return ok && f == "SerialActions"
		}
		pure := func(cond ssa.Value) bool {
			if !dependsOn(cond, isPolicy) || dependsOn(cond, isGlobal) {
				return false
			}
			tainted := false
			dependsOn(cond, func(v ssa.Value) bool {
				p, ok := v.(*ssa.Phi)
				if !ok {
					return false
				}
				// (the boolean itself, not the loop counters behind `rule`)
				if b, isB := p.Type().Underlying().(*types.Basic); !isB || b.Info()&types.IsBoolean == 0 {
					return false
				}
				// which value the phi takes is decided by a test of a setting: an incoming edge comes straight from
				// such a test, or from a block that only such a test leads to
				settingTest := func(b *ssa.BasicBlock) bool {
					if len(b.Instrs) == 0 {
						return false
					}
					ifi, ok := b.Instrs[len(b.Instrs)-1].(*ssa.If)
					return ok && dependsOn(ifi.Cond, isGlobal)
				}
				for _, pred := range p.Block().Preds {
					if settingTest(pred) || (len(pred.Preds) == 1 && settingTest(pred.Preds[0])) {
						tainted = true
					}
				}
				return false
			})
			return !tainted
		}
		eraDo := w.TryMethod("core", "ExecRuleAction", "Do")
		for _, l := range loops {
			// the serial loop: it calls an action's Do directly
			direct := false
			for b := range l.Body {
				for _, x := range b.Instrs {
					if c, ok := x.(*ssa.Call); ok && eraDo != nil && c.Common().StaticCallee() == eraDo {
						direct = true
					}
				}
			}
			if !direct {
				continue
			}
			// only the innermost such loop
			inner := true
			for _, l2 := range loops {
				if l2 != l && l.Body[l2.Header] && len(l2.Body) < len(l.Body) {
					for b := range l2.Body {
						for _, x := range b.Instrs {
							if c, ok := x.(*ssa.Call); ok && eraDo != nil && c.Common().StaticCallee() == eraDo {
								inner = false
							}
						}
					}
				}
			}
			if !inner {
				continue
			}
			for _, b := range fn.Blocks {
				if len(b.Instrs) == 0 {
					continue
				}
				ret, ok := b.Instrs[len(b.Instrs)-1].(*ssa.Return)
				if !ok {
					continue
				}
				// an exit out of the loop: a return block that is entered from the loop's body
				fromLoop := false
				for _, pb := range b.Preds {
					if l.Body[pb] {
						fromLoop = true
					}
				}
				if !fromLoop {
					continue
				}
				guarded := false
				for _, gb := range fn.Blocks {
					if len(gb.Instrs) == 0 {
						continue
					}
					ifi, ok := gb.Instrs[len(gb.Instrs)-1].(*ssa.If)
					if !ok || !pure(ifi.Cond) {
						continue
					}
					if s0 := gb.Succs[0]; len(s0.Preds) == 1 && s0.Dominates(b) {
						guarded = true
					}
				}
				if !guarded {
					badGlobal = w.PosOf(ret)
				}
			}
		}
	}
	if badGlobal != "" && bad == "" {
		r.violation("FAN-MODE-LOCAL", key+" global", badGlobal, "a failed action ends the walk here, and what decides that is not the rule's own `serialActions` alone (a process-wide setting is part of the condition): with it, a failing action of a rule that did not ask for serial actions stops that rule's other actions and the rules walked after it")
		return
	}
	switch {
	case n == 0:
		r.exempt("FAN-MODE-LOCAL", key, w.Pos(fn.Pos()), "no branch selects the concurrent execution: shape not recognised, not decided")
	case bad != "":
		r.violation("FAN-MODE-LOCAL", key, bad, "whether a rule's actions run serially depends on a value carried over from the rules walked before it")
	default:
		r.ok("FAN-MODE-LOCAL", key, w.PosOf(gos[0]), itoa(n)+" branch(es) lead to the concurrent execution, none depends on a loop-carried value")
	}
}

// WHEN-AGREE (C01, C04): the index, the linear scan and the dispatcher read a `when` the same way.
func ruleWhenAgree(prop string) ruleFn {
	return func(w *World, r *Report) {
		r.Rule("WHEN-AGREE", "premise: core.GetRulePatterns, which produces the pattern a rule is indexed under, takes a `when` that has no \"pattern\" property for the pattern itself (checked: it tests the key \"pattern\" and has a branch for its absence).  Conclusion: the parsed rule does the same — the type of Rule.When has an UnmarshalJSON that looks at the key \"pattern\", so that the pattern FindRules.Do matches against the event (Rule.When.Pattern) is the one the rule was found by.  With the default decoding such a `when` yields a nil Pattern, which matches every event and binds nothing: the rule's actions run without their variables, and for events that its `when` does not match", 1)
		grp := w.Func("core", "GetRulePatterns")
		looksAtPattern := func(fn *ssa.Function) bool {
			found := false
			withAnon(fn, func(g *ssa.Function) {
				allInstrs(g, func(in ssa.Instruction) {
					if lk, ok := in.(*ssa.Lookup); ok {
						if k, isC := constKey(lk.Index); isC && k == "pattern" {
							found = true
						}
					}
				})
			})
			return found
		}
		if !looksAtPattern(grp) {
			r.exempt("WHEN-AGREE", "premise", w.Pos(grp.Pos()), "premise fails: GetRulePatterns does not test the key \"pattern\"; nothing to agree with")
			return
		}
		// the type of Rule.When
		ruleT := structOf(w.Named("core", "Rule"))
		var whenT *types.Named
		if ruleT != nil {
			for i := 0; i < ruleT.NumFields(); i++ {
				if f := ruleT.Field(i); f.Name() == "When" {
					whenT = namedOf(f.Type())
				}
			}
		}
		if whenT == nil {
			r.exempt("WHEN-AGREE", "field=core.Rule.When", "", "Rule.When not found or not of a named type: not decided")
			return
		}
		key := "type=" + typeKey(whenT)
		um := w.TryMethod(typeRel(whenT), whenT.Obj().Name(), "UnmarshalJSON")
		switch {
		case um == nil:
			r.violation("WHEN-AGREE", key, w.Pos(whenT.Obj().Pos()), "Rule.When is decoded field by field: a `when` without a \"pattern\" property becomes a nil pattern for the dispatcher, while the index files the rule under the `when` map itself")
		case !looksAtPattern(um):
			r.violation("WHEN-AGREE", key, w.Pos(um.Pos()), "the decoder of Rule.When does not look at the key \"pattern\": it cannot take a bare `when` for the pattern as GetRulePatterns does")
		default:
			r.ok("WHEN-AGREE", key, w.Pos(um.Pos()), "a bare `when` is decoded as the pattern, as it is indexed")
		}
	}
}

// PROP-DW-ANY (C08, C10): a property goes with its target however it was written.
func rulePropDwAny(prop string) ruleFn {
	return func(w *World, r *Report) {
		r.Rule("PROP-DW-ANY", "premise: core.GenId stores every fact that carries a `!prop` key under the canonical property id of its target (checked: it calls parseProp and genPropId), so a property can be written with the plain fact API as well as with SetProp.  Conclusion: core.PrepareFact, through which every write goes, gives such a fact a `deleteWith` that names the target: a map update with the key deleteWith, control-dependent on parseProp's is-a-property result, whose value contains the target id parseProp returned.  Otherwise a property written as a fact (a `disabled` flag, say) survives its target, and a rule added later under that id inherits it", 1)
		gen := w.Func("core", "GenId")
		pp := w.Func("core", "parseProp")
		gpi := w.Func("core", "genPropId")
		prep := w.Func("core", "PrepareFact")
		key := "fn=" + fname(prep)
		calls := func(fn, callee *ssa.Function) []*ssa.Call {
			var out []*ssa.Call
			allInstrs(fn, func(in ssa.Instruction) {
				if c, ok := in.(*ssa.Call); ok && c.Common().StaticCallee() == callee {
					out = append(out, c)
				}
			})
			return out
		}
		if len(calls(gen, pp)) == 0 || len(calls(gen, gpi)) == 0 {
			r.exempt("PROP-DW-ANY", key, w.Pos(gen.Pos()), "premise fails: GenId no longer derives property ids from the fact itself; not decided by this rule")
			return
		}
		pcs := calls(prep, pp)
		found := false
		allInstrs(prep, func(in ssa.Instruction) {
			mu, ok := in.(*ssa.MapUpdate)
			if !ok {
				return
			}
			if k, isC := constKey(mu.Key); !isC || k != "deleteWith" {
				return
			}
			for _, pc := range pcs {
				isProp := func(v ssa.Value) bool {
					e, ok := v.(*ssa.Extract)
					return ok && e.Tuple == ssa.Value(pc) && e.Index == 0
				}
				target := func(v ssa.Value) bool {
					e, ok := v.(*ssa.Extract)
					return ok && e.Tuple == ssa.Value(pc) && e.Index == 1
				}
				if controlDependsOn(prep, in, isProp) && sliceHolds(mu.Value, target) {
					found = true
				}
			}
		})
		if found {
			r.ok("PROP-DW-ANY", key, w.Pos(prep.Pos()), "a fact that is a property gets a deleteWith naming its target")
		} else {
			r.violation("PROP-DW-ANY", key, w.Pos(prep.Pos()), "PrepareFact gives a fact that is a property no deleteWith: written with the plain fact API, a property survives the fact or rule it belongs to")
		}
		// load clause: PrepareFact runs when a fact is written and again when it is loaded (IndexedState.Load); what it
		// puts into the fact must not hang on the `loading` flag, or the fact is another one after a reload.  (Refusals
		// may: what is stored already is loaded as it is.)
		isLoading := func(v ssa.Value) bool {
			_, f, _, ok := loadedField(v)
			return ok && f == "loading"
		}
		var hang ssa.Instruction
		allInstrs(prep, func(in ssa.Instruction) {
			if mu, ok := in.(*ssa.MapUpdate); ok && hang == nil && controlDependsOnClassic(prep, mu, isLoading, isSuccessReturnPS) {
				hang = in
			}
		})
		if hang != nil {
			r.violation("PROP-DW-ANY", key+" load", w.PosOf(hang), "PrepareFact writes into the fact depending on whether the location is being loaded: the same fact is another one after a reload (a location-level property gained \"deleteWith\":[\"\"] only at load)")
		} else {
			r.ok("PROP-DW-ANY", key+" load", w.Pos(prep.Pos()), "nothing PrepareFact writes into the fact hangs on the loading flag")
		}
		// given clause: a property that comes with a deleteWith of its own goes with its target, too: with the
		// `no deleteWith given` outcome deleted, a deleteWith naming the target is still written.
		kept := false
		for _, pc := range pcs {
			target := func(v ssa.Value) bool {
				e, ok := v.(*ssa.Extract)
				return ok && e.Tuple == ssa.Value(pc) && e.Index == 1
			}
			absent := map[bedge]bool{}
			for _, b := range prep.Blocks {
				if len(b.Instrs) == 0 {
					continue
				}
				ifi, ok := b.Instrs[len(b.Instrs)-1].(*ssa.If)
				if !ok {
					continue
				}
				ct, ok := decodeIf(ifi)
				if !ok {
					continue
				}
				ex, ok := resolveSpill(ct.V).(*ssa.Extract)
				if !ok || ex.Index != 1 {
					continue
				}
				lk, ok := ex.Tuple.(*ssa.Lookup)
				if !ok || !lk.CommaOk {
					continue
				}
				if k, isC := constKey(lk.Index); !isC || k != "deleteWith" {
					continue
				}
				// the edge taken when the key is absent
				if ct.TrueWhen == "true" {
					absent[bedge{b, 1}] = true
				} else if ct.TrueWhen == "false" {
					absent[bedge{b, 0}] = true
				}
			}
			isDW := func(in ssa.Instruction) bool {
				mu, ok := in.(*ssa.MapUpdate)
				if !ok {
					return false
				}
				if k, isC := constKey(mu.Key); !isC || k != "deleteWith" {
					return false
				}
				return sliceHolds(mu.Value, target) || dependsOn(mu.Value, target)
			}
			if h, _ := reach(prep, pc, isDW, nil, edgeFilterOf(absent)); h != nil {
				kept = true
			}
		}
		// every-kind clause: the helper that puts the target into a given deleteWith (a callee of PrepareFact that is
		// handed the target and whose result is written under `deleteWith`) hands the given value back unchanged only
		// under an equality test with the target (it is in there already).  A `default: return given` for a value
		// that is no list — `"deleteWith":"lease"` from a client that thinks one id needs no list — leaves the
		// property without its target.
		for _, pc := range pcs {
			target := func(v ssa.Value) bool {
				e, ok := v.(*ssa.Extract)
				return ok && e.Tuple == ssa.Value(pc) && e.Index == 1
			}
			allInstrs(prep, func(in ssa.Instruction) {
				c := callOf(in)
				if c == nil || c.StaticCallee() == nil || len(c.StaticCallee().Blocks) == 0 || !w.IsRulio(c.StaticCallee()) {
					return
				}
				h := c.StaticCallee()
				ti := -1
				for i, a := range c.Args {
					if dependsOn(a, target) && i < len(h.Params) && types.Identical(h.Params[i].Type(), types.Typ[types.String]) {
						ti = i
					}
				}
				res, isVal := in.(ssa.Value)
				if ti < 0 || !isVal {
					return
				}
				written := false
				allInstrs(prep, func(x ssa.Instruction) {
					if mu, ok := x.(*ssa.MapUpdate); ok {
						if k, isC := constKey(mu.Key); isC && k == "deleteWith" && dependsOn(mu.Value, func(v ssa.Value) bool { return v == res }) {
							written = true
						}
					}
				})
				if !written {
					return
				}
				tp := ssa.Value(h.Params[ti])
				bad := ""
				allInstrs(h, func(x ssa.Instruction) {
					ret, ok := x.(*ssa.Return)
					if !ok || len(ret.Results) != 1 {
						return
					}
					v := resolveSpill(ret.Results[0])
					if _, isParam := v.(*ssa.Parameter); !isParam || v == tp {
						return
					}
					if !controlDependsOn(h, x, func(cv ssa.Value) bool {
						b, isB := cv.(*ssa.BinOp)
						return isB && b.Op == token.EQL && (dependsOn(b.X, func(z ssa.Value) bool { return z == tp }) || dependsOn(b.Y, func(z ssa.Value) bool { return z == tp }))
					}) {
						bad = w.PosOf(x)
					}
				})
				if bad != "" {
					r.violation("PROP-DW-ANY", key+" every-kind", bad, "the helper that puts a property's target into its deleteWith hands some given values back as they are (a value that is no list): `{\"id\":\"r1\",\"!note\":1,\"deleteWith\":\"lease\"}` is stored without its target and survives r1")
				} else {
					r.ok("PROP-DW-ANY", key+" every-kind", w.Pos(h.Pos()), "the given deleteWith comes back unchanged only when the target is in it")
				}
			})
		}
		if kept {
			r.ok("PROP-DW-ANY", key+" given", w.Pos(prep.Pos()), "a property that names other ids in its deleteWith names its target, too")
		} else {
			r.violation("PROP-DW-ANY", key+" given", w.Pos(prep.Pos()), "a property that comes with a deleteWith of its own ({\"id\":\"r1\",\"!note\":1,\"deleteWith\":[\"lease\"]}) is not given its target: it survives the fact or rule it belongs to")
		}
	}
}

// sliceHolds: v is (an interface around) a slice literal one of whose elements satisfies pred (stores into the
// backing array of a `new [n]T; slice` literal).
func sliceHolds(v ssa.Value, pred func(ssa.Value) bool) bool {
	if mi, ok := v.(*ssa.MakeInterface); ok {
		v = mi.X
	}
	sl, ok := v.(*ssa.Slice)
	if !ok {
		return dependsOn(v, pred)
	}
	al, ok := sl.X.(*ssa.Alloc)
	if !ok {
		return dependsOn(v, pred)
	}
	held := false
	for _, ref := range *al.Referrers() {
		ia, ok := ref.(*ssa.IndexAddr)
		if !ok {
			continue
		}
		for _, ref2 := range *ia.Referrers() {
			if st, ok := ref2.(*ssa.Store); ok && st.Addr == ssa.Value(ia) && dependsOn(st.Val, pred) {
				held = true
			}
		}
	}
	return held
}

// PENDING-PAIR (C11, C13): every counted request is un-counted.
func rulePendingPair(prop string) ruleFn {
	return func(w *World, r *Report) {
		r.Rule("PENDING-PAIR", "in HTTPService.ServeHTTP every path from the increment of the pending-request count (incPending(true)) to a return passes the registration of a deferred function that decrements it (or a direct incPending(false)).  The listener refuses new connections while the count is at its limit; a path that returns without un-counting — an unparsable request, say — leaks one unit per request, and after `max` such requests no client of any location is served again", 1)
		fn := w.Method("service", "HTTPService", "ServeHTTP")
		inc := w.Method("service", "HTTPService", "incPending")
		key := "fn=" + fname(fn)
		isIncArg := func(in ssa.Instruction, want bool) bool {
			c := callOf(in)
			if c == nil || c.StaticCallee() != inc || len(c.Args) < 2 {
				return false
			}
			b, ok := isConstBool(c.Args[len(c.Args)-1])
			return ok && b == want
		}
		isUp := func(in ssa.Instruction) bool {
			if _, isDefer := in.(*ssa.Defer); isDefer {
				return false
			}
			return isIncArg(in, true)
		}
		isDown := func(in ssa.Instruction) bool {
			if d, isDefer := in.(*ssa.Defer); isDefer {
				if isIncArg(in, false) {
					return true
				}
				// a deferred closure that decrements
				if mc, ok := d.Call.Value.(*ssa.MakeClosure); ok {
					if g, ok := mc.Fn.(*ssa.Function); ok {
						found := false
						allInstrs(g, func(x ssa.Instruction) {
							if isIncArg(x, false) {
								found = true
							}
						})
						return found
					}
				}
				return false
			}
			return isIncArg(in, false)
		}
		n, misses := mustFollow(fn, isUp, isDown)
		switch {
		case n == 0:
			r.exempt("PENDING-PAIR", key, w.Pos(fn.Pos()), "ServeHTTP does not count pending requests: shape not recognised, not decided")
		case len(misses) > 0:
			r.violation("PENDING-PAIR", key, w.PosOf(misses[0].Exit), "a request is counted as pending and this return is reachable without un-counting it", blockPathString(w, misses[0].Path)...)
		default:
			r.ok("PENDING-PAIR", key, w.Pos(fn.Pos()), "every counted request is un-counted on every way out")
		}
	}
}

// CTX-ENTRY (C09): an operation runs in the location it was sent to.
func ruleCtxEntry(w *World, r *Report) {
	r.Rule("CTX-ENTRY", "every exported method of core.Location that points the request context at its location (Context.SetLoc with the receiver) does so unconditionally and first: the call dominates every call of the method into the State, so the hooks (which ask the context for `the current location`, e.g. to key a cron job) and the scripts run for the location the operation was addressed to.  A SetLoc that only happens `if the context has no location yet` leaves a context that was last used for another location pointing there: the scheduled rule added to A is registered as a job of B and replaces B's job of the same id", 8)
	a := newLocAnchors(w)
	setLoc := w.Method("core", "Context", "SetLoc")
	for _, m := range a.exportedLocationMethods() {
		recv := ssa.Value(m.Params[0])
		var sets []ssa.Instruction
		allInstrs(m, func(in ssa.Instruction) {
			if c := callOf(in); c != nil && c.StaticCallee() == setLoc && len(c.Args) == 2 && valueIs(c.Args[1], recv) {
				if _, isDefer := in.(*ssa.Defer); !isDefer {
					sets = append(sets, in)
				}
			}
		})
		if len(sets) == 0 {
			continue
		}
		key := "entry=" + fname(m)
		var stateCalls []ssa.Instruction
		allInstrs(m, func(in ssa.Instruction) {
			c := callOf(in)
			if c == nil || !c.IsInvoke() {
				return
			}
			if nn := namedOf(c.Value.Type()); nn != nil && typeKey(nn) == "core.State" {
				stateCalls = append(stateCalls, in)
			}
		})
		bad := ""
		for _, sc := range stateCalls {
			dom := false
			for _, s := range sets {
				if instrDominates(s, sc) {
					dom = true
				}
			}
			if !dom {
				bad = w.PosOf(sc)
			}
		}
		// also: some SetLoc is executed on every path (it dominates every return) — in the method itself or in a method
		// of the same location that it calls and that does so on all its paths (the walk over the ancestors ends with
		// the location itself: ANC-SELF-LAST, ANC-RESTORE)
		var repoints func(f *ssa.Function, depth int) bool
		repoints = func(f *ssa.Function, depth int) bool {
			if f == nil || len(f.Blocks) == 0 || len(f.Params) == 0 || depth > 3 || namedOf(f.Params[0].Type()) != a.Location {
				return false
			}
			if f.Name() == "DoAncestors" || f.Name() == "doAncestors" {
				return true
			}
			frecv := ssa.Value(f.Params[0])
			var marks []ssa.Instruction
			allInstrs(f, func(x ssa.Instruction) {
				c := callOf(x)
				if c == nil || c.StaticCallee() == nil {
					return
				}
				if _, isDefer := x.(*ssa.Defer); isDefer {
					return
				}
				if c.StaticCallee() == setLoc && len(c.Args) == 2 && valueIs(c.Args[1], frecv) {
					marks = append(marks, x)
				} else if len(c.Args) > 0 && valueIs(c.Args[0], frecv) && c.StaticCallee() != f && repoints(c.StaticCallee(), depth+1) {
					marks = append(marks, x)
				}
			})
			all := len(marks) > 0
			allInstrs(f, func(x ssa.Instruction) {
				if _, ok := x.(*ssa.Return); !ok {
					return
				}
				dom := false
				for _, mk := range marks {
					if instrDominates(mk, x) {
						dom = true
					}
				}
				if !dom {
					all = false
				}
			})
			return all
		}
		if bad == "" {
			allInstrs(m, func(in ssa.Instruction) {
				if c := callOf(in); c != nil && c.StaticCallee() != nil && c.StaticCallee() != m && len(c.Args) > 0 && valueIs(c.Args[0], recv) && repoints(c.StaticCallee(), 0) {
					sets = append(sets, in)
				}
			})
			allInstrs(m, func(in ssa.Instruction) {
				if _, ok := in.(*ssa.Return); !ok {
					return
				}
				dom := false
				for _, s := range sets {
					if instrDominates(s, in) {
						dom = true
					}
				}
				if !dom && bad == "" {
					bad = w.PosOf(in)
				}
			})
		}
		if bad != "" {
			r.violation("CTX-ENTRY", key, w.PosOf(sets[0]), "the context is pointed at the receiving location only on some paths ("+bad+" is reached without it)")
		} else {
			r.ok("CTX-ENTRY", key, w.PosOf(sets[0]), "the context is pointed at the receiving location first, unconditionally")
		}
	}
}

// HOOK-LOAD-TOLERANT (C13, C15): what is stored loads.
func ruleHookLoadTolerant(prop string) ruleFn {
	return func(w *World, r *Report) {
		r.Rule("HOOK-LOAD-TOLERANT", "the add hook installed by cron.AddHooks is also run for every record of a location that is being loaded (its `loading` parameter is true), and both states' Load give up when it fails.  Therefore, with the `not loading` outcome of every test of that parameter deleted, no error return is reachable from the call of Cronner.ScheduleEvent: a stored rule that the cron cannot schedule (any more — a dated expression whose last occurrence has passed, a full cron) is logged and loaded, not handed on as a failure that makes every later load of its location fail", 1)
		cr := w.Named("cron", "Cronner")
		ah := w.Func("cron", "AddHooks")
		n := 0
		for _, fn := range ah.AnonFuncs {
			var scheds []ssa.Instruction
			allInstrs(fn, func(in ssa.Instruction) {
				if c := callOf(in); c != nil && isIfaceMethodCall(c, cr, "ScheduleEvent") {
					scheds = append(scheds, in)
				}
			})
			if len(scheds) == 0 {
				continue
			}
			n++
			key := "hook=" + fname(fn)
			var loading ssa.Value
			for _, p := range fn.Params {
				if b, ok := p.Type().Underlying().(*types.Basic); ok && b.Kind() == types.Bool {
					loading = p
				}
			}
			if loading == nil {
				r.exempt("HOOK-LOAD-TOLERANT", key, w.Pos(fn.Pos()), "the add hook has no boolean `loading` parameter: shape not recognised, not decided")
				continue
			}
			del := map[bedge]bool{}
			for _, b := range fn.Blocks {
				if len(b.Instrs) == 0 {
					continue
				}
				ifi, ok := b.Instrs[len(b.Instrs)-1].(*ssa.If)
				if !ok {
					continue
				}
				ct, ok := decodeIf(ifi)
				if !ok || !valueIs(resolveSpill(ct.V), loading) {
					continue
				}
				if ct.TrueWhen == "true" {
					del[bedge{b, 1}] = true
				} else if ct.TrueWhen == "false" {
					del[bedge{b, 0}] = true
				}
			}
			isErrRet := func(in ssa.Instruction) bool {
				_, ok := in.(*ssa.Return)
				return ok && !isSuccessReturnPS(in)
			}
			bad := ""
			for _, s := range scheds {
				if h, _ := reach(fn, s, isErrRet, nil, edgeFilterOf(del)); h != nil {
					bad = w.PosOf(h)
				}
			}
			if bad != "" {
				r.violation("HOOK-LOAD-TOLERANT", key, bad, "while a location is being loaded, a failure to schedule a stored rule is returned to Load: the location cannot be opened any more")
			} else {
				r.ok("HOOK-LOAD-TOLERANT", key, w.PosOf(scheds[0]), "a scheduling failure during a load is not handed on")
			}
		}
		if n == 0 {
			r.exempt("HOOK-LOAD-TOLERANT", "hook=none", w.Pos(ah.Pos()), "no closure of AddHooks calls Cronner.ScheduleEvent: shape not recognised")
		}
	}
}

// ADD-EXPIRES-STALE (C10): a renewal is not undone by the expiry of what it renews.
func ruleAddExpiresStale(w *World, r *Report) {
	r.Rule("ADD-EXPIRES-STALE", "the add hook may look the id up (State.Get), and a lookup purges a fact it finds expired — pattern, record, dependents.  Therefore IndexedState.add deals with an expired predecessor before it indexes anything for the new fact: on the edge on which IdToFact holds something for the id, every path to the hook call (and to the first change of the rule index) passes a call of the purge helper (expire) on that stored fact.  Otherwise re-adding an expired rule under its id with the same `when` succeeds, is listed and enabled, and never fires: the purge inside the hook takes the pattern the new rule was just indexed under", 1)
	fn := w.Method("core", "IndexedState", "add")
	key := "fn=" + fname(fn)
	exp := w.Method("core", "IndexedState", "expire")
	isHook := func(in ssa.Instruction) bool { _, ok := hookCall(idxState, "addHook", in); return ok }
	fromLookup := func(v ssa.Value) bool {
		return dependsOn(v, func(x ssa.Value) bool {
			lk, ok := x.(*ssa.Lookup)
			return ok && isFieldLoad(lk.X, idxState, "IdToFact")
		})
	}
	isPurge := func(in ssa.Instruction) bool {
		c := callOf(in)
		if c == nil || c.StaticCallee() != exp || len(c.Args) < 4 {
			return false
		}
		return fromLookup(c.Args[3])
	}
	var hooks []ssa.Instruction
	allInstrs(fn, func(in ssa.Instruction) {
		if isHook(in) {
			hooks = append(hooks, in)
		}
	})
	if len(hooks) == 0 {
		r.exempt("ADD-EXPIRES-STALE", key, w.Pos(fn.Pos()), "add does not call the add hook: shape not recognised, not decided")
		return
	}
	// edges on which the id is not stored yet: nothing to purge
	ef := idxEdgeFilter(fn, true, false, false)
	// is there a test of presence at all before the hook?  (if every path is `absent`-deleted the rule is vacuous)
	for _, h := range hooks {
		if hit, path := reach(fn, nil, func(x ssa.Instruction) bool { return x == h }, isPurge, ef); hit != nil {
			r.violation("ADD-EXPIRES-STALE", key, w.PosOf(h), "the add hook can run while an expired predecessor is still stored under the id: its lookup purges that predecessor and, with it, what was just indexed for the new fact", blockPathString(w, path)...)
			return
		}
	}
	r.ok("ADD-EXPIRES-STALE", key, w.PosOf(hooks[0]), "an expired predecessor is purged before anything is indexed or any hook runs")
	// sibling clause: LinearState.Add has no index to protect, but the same obligation towards the dependents: a fact
	// that is written over a predecessor which expired unnoticed does not inherit what depended on the predecessor
	// (a `disabled` flag, say).  Every path from the entry to the storage write passes a call that reaches
	// LinearState.expire.
	lin := w.Method("core", "LinearState", "Add")
	lexp := w.Method("core", "LinearState", "expire")
	lkey := "fn=" + fname(lin)
	reachesExpire := map[*ssa.Function]bool{lexp: true}
	for changed := true; changed; {
		changed = false
		for _, m := range w.MethodsOf(w.Named("core", "LinearState")) {
			if reachesExpire[m] || m == lin {
				continue
			}
			allInstrs(m, func(in ssa.Instruction) {
				if c := callOf(in); c != nil && c.StaticCallee() != nil && reachesExpire[c.StaticCallee()] && !reachesExpire[m] {
					reachesExpire[m] = true
					changed = true
				}
			})
		}
	}
	isLPurge := func(in ssa.Instruction) bool {
		c := callOf(in)
		return c != nil && c.StaticCallee() != nil && reachesExpire[c.StaticCallee()]
	}
	var writes []ssa.Instruction
	allInstrs(lin, func(in ssa.Instruction) {
		if c := callOf(in); c != nil {
			if _, ok := isStorageCall(w, c); ok && calleeObj(c).Name() == "Add" {
				writes = append(writes, in)
			}
		}
	})
	if len(writes) == 0 {
		r.exempt("ADD-EXPIRES-STALE", lkey, w.Pos(lin.Pos()), "LinearState.Add does not call Storage.Add: shape not recognised, not decided")
		return
	}
	// (on the edge on which nothing is stored under the id there is nothing to purge)
	absent := map[bedge]bool{}
	for _, b := range lin.Blocks {
		if len(b.Instrs) == 0 {
			continue
		}
		ifi, ok := b.Instrs[len(b.Instrs)-1].(*ssa.If)
		if !ok {
			continue
		}
		ct, ok := decodeIf(ifi)
		if !ok {
			continue
		}
		ex, ok := resolveSpill(ct.V).(*ssa.Extract)
		if !ok || ex.Index != 1 {
			continue
		}
		lk, ok := ex.Tuple.(*ssa.Lookup)
		if !ok || !lk.CommaOk || !isFieldLoad(lk.X, "core.LinearState", "Facts") {
			continue
		}
		if ct.TrueWhen == "true" {
			absent[bedge{b, 1}] = true
		} else if ct.TrueWhen == "false" {
			absent[bedge{b, 0}] = true
		}
	}
	for _, wr := range writes {
		if hit, path := reach(lin, nil, func(x ssa.Instruction) bool { return x == wr }, isLPurge, edgeFilterOf(absent)); hit != nil {
			r.violation("ADD-EXPIRES-STALE", lkey, w.PosOf(wr), "LinearState.Add writes over a predecessor that may have expired unnoticed without purging it first: the predecessor's dependents (its `disabled` flag, facts that name it in deleteWith) become the new fact's", blockPathString(w, path)...)
			return
		}
	}
	r.ok("ADD-EXPIRES-STALE", lkey, w.PosOf(writes[0]), "an expired predecessor is purged, with its dependents, before the new fact is written")
}

// TIMEIDX-ORDER (C16): the old index entry goes before the new one comes.
func ruleTimeIdxOrder(w *World, r *Report) {
	r.Rule("TIMEIDX-ORDER", "in the transaction body built by crolt's Cron.update, the entry of a job in the time index is moved by deleting the old key and putting the new one, in that order: no Delete on a bucket is reachable from a Put on the same bucket (same bucket-name value).  The key is `due time, job id`; when a job is written again with the due time it already had (an absolute one-shot re-added with its fetched tid) old and new key are the same, and a Delete after the Put removes the entry that was just written: the job stays in the job table, has no time-index entry, never fires, and a restart does not help", 1)
	upd := w.Method("crolt", "Cron", "update")
	n := 0
	bad := ""
	withAnon(upd, func(g *ssa.Function) {
		if g == upd {
			return
		}
		type op struct {
			in     ssa.Instruction
			bucket ssa.Value
			kind   string
		}
		var ops []op
		allInstrs(g, func(in ssa.Instruction) {
			c := callOf(in)
			if c == nil {
				return
			}
			f := c.StaticCallee()
			if f == nil || f.Signature.Recv() == nil || (f.Name() != "Put" && f.Name() != "Delete") {
				return
			}
			if rn := namedOf(f.Signature.Recv().Type()); rn == nil || rn.Obj().Name() != "Bucket" || len(c.Args) == 0 {
				return
			}
			// receiver: tx.Bucket([]byte(name))
			bc, ok := c.Args[0].(*ssa.Call)
			if !ok || len(bc.Common().Args) < 2 {
				return
			}
			name := bc.Common().Args[1]
			if cv, ok := name.(*ssa.Convert); ok {
				name = cv.X
			}
			name = resolveSpill(name)
			if u, ok := name.(*ssa.UnOp); ok && u.Op == token.MUL {
				name = u.X // the captured variable itself: every use loads it anew
			}
			ops = append(ops, op{in, name, f.Name()})
		})
		for _, p := range ops {
			if p.kind != "Put" {
				continue
			}
			for _, d := range ops {
				if d.kind != "Delete" || d.bucket != p.bucket {
					continue
				}
				n++
				if reachable(g, p.in, d.in) {
					bad = w.PosOf(d.in)
				}
			}
		}
	})
	key := "fn=" + fname(upd)
	switch {
	case n == 0:
		r.exempt("TIMEIDX-ORDER", key, w.Pos(upd.Pos()), "no bucket is both written and deleted from in update's transaction body: shape not recognised, not decided")
	case bad != "":
		r.violation("TIMEIDX-ORDER", key, bad, "the old time-index key is deleted after the new one was put: when both are the same key the job loses its only index entry")
	default:
		r.ok("TIMEIDX-ORDER", key, w.Pos(upd.Pos()), "delete-then-put on the time index")
	}
}

// TYPED-NIL (C13, C14, C18): a nil pointer in an error is not a nil error.
func ruleTypedNil(prop string) ruleFn {
	return func(w *World, r *Report) {
		r.Rule("TYPED-NIL", "no function of rulio returns, as its `error` result, a pointer that it got from a call and did not test: an interface that holds a nil *core.Condition is not nil, so `err != nil` is true for the caller although nothing failed (its message is then \"nil condition\").  Every return whose error result wraps a pointer-typed call result (not a freshly built value) is control-dependent on a nil test of that pointer", 0)
		n := 0
		for _, fn := range w.Funcs {
			if isTestFile(w, fn) || fn.Synthetic != "" || !w.IsRulio(fn) {
				continue
			}
			idx := errorResultIndex(fn.Signature)
			if idx < 0 {
				continue
			}
			allInstrs(fn, func(in ssa.Instruction) {
				ret, ok := in.(*ssa.Return)
				if !ok || idx >= len(ret.Results) {
					return
				}
				mi, ok := resolveSpill(ret.Results[idx]).(*ssa.MakeInterface)
				if !ok {
					return
				}
				if _, isPtr := mi.X.Type().Underlying().(*types.Pointer); !isPtr {
					return
				}
				var src ssa.Value = mi.X
				if e, ok := src.(*ssa.Extract); ok {
					src = e.Tuple
				}
				call, isCall := src.(*ssa.Call)
				if !isCall {
					return // a fresh &T{...} or a package-level value
				}
				if f := call.Common().StaticCallee(); f != nil && alwaysReturnsFresh(f) {
					return // a constructor (NewSyntaxError ...): never nil
				}
				n++
				key := "fn=" + fname(fn)
				tested := controlDependsOnIf(fn, in, func(ifi *ssa.If) bool {
					ct, ok := decodeIf(ifi)
					return ok && (ct.TrueWhen == "nil" || ct.TrueWhen == "nonnil") && resolveSpill(ct.V) == mi.X
				})
				if tested {
					r.ok("TYPED-NIL", key, w.PosOf(in), "the pointer is tested before it is returned as an error")
				} else {
					r.violation("TYPED-NIL", key, w.PosOf(in), "a pointer result of a call ("+types.TypeString(mi.X.Type(), nil)+") is returned as `error` untested: when it is nil the caller sees a non-nil error")
				}
			})
		}
		r.stat("TYPED-NIL.sites", n)
	}
}

// alwaysReturnsFresh: every return of f hands back (as its first result) a value it allocated itself.
func alwaysReturnsFresh(f *ssa.Function) bool {
	if len(f.Blocks) == 0 {
		return false
	}
	ok, any := true, false
	allInstrs(f, func(in ssa.Instruction) {
		ret, isRet := in.(*ssa.Return)
		if !isRet || len(ret.Results) == 0 {
			return
		}
		any = true
		if _, isAlloc := resolveSpill(ret.Results[0]).(*ssa.Alloc); !isAlloc {
			ok = false
		}
	})
	return ok && any
}

// RECOVER-ALL (C13, C14): whatever goes wrong inside the script engine fails the script, not the process.
func ruleRecoverAll(prop string) ruleFn {
	return func(w *World, r *Report) {
		r.Rule("RECOVER-ALL", "core.RunJavascript runs foreign code in a third-party interpreter, also in goroutines of its own (the concurrently executed actions of a rule), where an escaping panic ends the process.  Its entry block therefore defers, unconditionally, a function that calls recover() and contains no panic of its own (no re-panic), and that stores into the function's named error result: an interpreter panic (a script that makes otto reflect on a Go interface value) comes back as the script's error.  (RECOVER-RESULT decides that what is recovered is reported; the time-out signal is recovered by an inner deferred function.)", 1)
		fn := w.Func("core", "RunJavascript")
		key := "fn=" + fname(fn)
		found := false
		if len(fn.Blocks) > 0 {
			entry := fn.Blocks[0]
			allInstrs(fn, func(in ssa.Instruction) {
				d, ok := in.(*ssa.Defer)
				if !ok || found {
					return
				}
				// unconditional: the defer's block dominates every return block (it is in the entry block, or in a block
				// that every path passes)
				if in.Block() != entry && !dominatesAllReturns(fn, in.Block()) {
					return
				}
				var g *ssa.Function
				if mc, ok := d.Call.Value.(*ssa.MakeClosure); ok {
					g, _ = mc.Fn.(*ssa.Function)
				} else if f, ok := d.Call.Value.(*ssa.Function); ok {
					g = f
				}
				if g == nil {
					return
				}
				recovers, panics, setsErr := false, false, false
				allInstrs(g, func(x ssa.Instruction) {
					if c, ok := x.(*ssa.Call); ok {
						if b, ok := c.Common().Value.(*ssa.Builtin); ok && b.Name() == "recover" {
							recovers = true
						}
					}
					if _, ok := x.(*ssa.Panic); ok {
						panics = true
					}
					if st, ok := x.(*ssa.Store); ok && isErrorType(st.Val.Type()) {
						if _, isFree := st.Addr.(*ssa.FreeVar); isFree {
							setsErr = true
						}
					}
				})
				if recovers && !panics && setsErr {
					found = true
				}
			})
		}
		if found {
			r.ok("RECOVER-ALL", key, w.Pos(fn.Pos()), "an unconditional deferred recover turns every panic into the script's error")
		} else {
			r.violation("RECOVER-ALL", key, w.Pos(fn.Pos()), "RunJavascript has no unconditional deferred recover without a re-panic: a panic inside the interpreter escapes, and in the goroutine of a concurrently executed action it ends the process")
		}
	}
}

// dominatesAllReturns: block b dominates every block that ends in a Return.
func dominatesAllReturns(fn *ssa.Function, b *ssa.BasicBlock) bool {
	for _, x := range fn.Blocks {
		if len(x.Instrs) == 0 {
			continue
		}
		if _, ok := x.Instrs[len(x.Instrs)-1].(*ssa.Return); ok && !b.Dominates(x) {
			return false
		}
	}
	return true
}

// RULE-SHAPED-SKIP (C01, C13): what is stored like a rule but is none does not keep the rules from firing.
func ruleRuleShapedSkip(prop string) ruleFn {
	return func(w *World, r *Report) {
		r.Rule("RULE-SHAPED-SKIP", "AddFact stores any JSON object, including one with a map under `rule` that has a `when` and nothing else; both states file it with the rules (index, linear scan).  In every State implementation's FindCachedRules the candidate that does not parse as a rule (core.RuleFromMap fails) is skipped: no error return is control-dependent on RuleFromMap's error.  Returning that error fails the whole event, for every rule that matches it, for as long as the fact is stored", 2)
		a := newLocAnchors(w)
		rfm := w.Func("core", "RuleFromMap")
		for nt := range a.stateImp {
			fn := w.TryMethod(typeRel(nt), nt.Obj().Name(), "FindCachedRules")
			if fn == nil {
				continue
			}
			key := "fn=" + fname(fn)
			var calls []*ssa.Call
			allInstrs(fn, func(in ssa.Instruction) {
				if c, ok := in.(*ssa.Call); ok && c.Common().StaticCallee() == rfm {
					calls = append(calls, c)
				}
			})
			if len(calls) == 0 {
				r.exempt("RULE-SHAPED-SKIP", key, w.Pos(fn.Pos()), "FindCachedRules does not parse candidates with RuleFromMap: shape not recognised, not decided")
				continue
			}
			bad := ""
			for _, c := range calls {
				allInstrs(fn, func(x ssa.Instruction) {
					ret, ok := x.(*ssa.Return)
					if !ok || isSuccessReturnPS(x) {
						return
					}
					if dependsOnErrOf(ret, c) {
						bad = w.PosOf(x)
					}
				})
			}
			if bad != "" {
				r.violation("RULE-SHAPED-SKIP", key, bad, "a candidate that does not parse as a rule fails the whole rule lookup: no rule fires for any event that matches that candidate's `when`")
			} else {
				r.ok("RULE-SHAPED-SKIP", key, w.PosOf(calls[0]), "a candidate that does not parse is skipped")
			}
		}
	}
}

// CACHE-LOC-STICKY (C17): an entry that has its location keeps it.
func ruleCacheLocSticky(w *World, r *Report) {
	r.Rule("CACHE-LOC-STICKY", "the location of a cache entry (CachedLocation.Location) is written only with the result of System.OpenLocation — never reset to nil (or replaced by anything else) once it is there.  Requests are handed the entry's instance; the clean-up after a failed open deletes exactly the entries that have no location.  An entry whose location is reset while requests use the instance is evicted under them, the next request loads a second instance, and an acknowledged write (a CreateLocation in flight, say) is not in what the cache serves", 1)
	open := w.Method("sys", "System", "OpenLocation")
	n := 0
	for _, fn := range w.Funcs {
		if w.RelPkg(fn) != "sys" || isTestFile(w, fn) {
			continue
		}
		allInstrs(fn, func(in ssa.Instruction) {
			st, ok := storesToField(in, cachedLoc, "Location")
			if !ok {
				return
			}
			// a fresh entry's initialisation (composite literal in its constructor) is not a reset
			if isFreshAt(addrBase(st.Addr), in) {
				return
			}
			n++
			key := "fn=" + fname(fn) + " store=Location#" + itoa(n)
			fromOpen := dependsOn(st.Val, func(v ssa.Value) bool {
				c, ok := v.(*ssa.Call)
				return ok && c.Common().StaticCallee() == open
			})
			if isNilConst(st.Val) || !fromOpen {
				r.violation("CACHE-LOC-STICKY", "fn="+fname(fn), w.PosOf(in), "the entry's location is overwritten with something that is not the result of OpenLocation (nil, here: the entry becomes `has no location` while requests may be using the instance)")
			} else {
				r.ok("CACHE-LOC-STICKY", key, w.PosOf(in), "set from OpenLocation's result")
			}
		})
	}
	if n == 0 {
		r.exempt("CACHE-LOC-STICKY", "field="+cachedLoc+".Location", "", "nothing stores into CachedLocation.Location: shape not recognised, not decided")
	}
}

// COPY-DEEP (C04): the per-action copy of the event reaches below arrays.
func ruleCopyDeep(w *World, r *Report) {
	r.Rule("COPY-DEEP", "core.Copy, with which every concurrently executed action (and every code condition) is given an event of its own, descends into every container kind a decoded JSON value is made of: its type switch has a case for map[string]interface{} and one for []interface{}.  A copy that stops at arrays shares everything below the first array between the actions, the caller's event and the event in the returned work tree: one action's write to event.items[0] is seen by the others", 1)
	fn := w.Func("core", "Copy")
	key := "fn=" + fname(fn)
	have := assertedTypes(fn, func(v ssa.Value) bool { return v == ssa.Value(fn.Params[0]) })
	var missing []string
	for _, t := range []string{"map[string]interface{}", "[]interface{}"} {
		if !have[t] && !have[strings.ReplaceAll(t, "interface{}", "any")] {
			missing = append(missing, t)
		}
	}
	if len(missing) > 0 {
		r.violation("COPY-DEEP", key, w.Pos(fn.Pos()), "Copy has no case for "+strings.Join(missing, ", ")+": what lies below such a value is shared between the copy and the original")
		return
	}
	r.ok("COPY-DEEP", key, w.Pos(fn.Pos()), "maps and arrays are both copied recursively")
}

// SHARED-TO-JS (C11): what all locations share is not handed to a script by reference.
func ruleSharedToJS(w *World, r *Report) {
	r.Rule("SHARED-TO-JS", "core.RunJavascript receives the location control's CodeProps (premise, checked: callers pass Control.CodeProps, and sys hands one Control to every location of a group) and puts them into the script's environment.  The interpreter hands Go maps and slices to the script by reference, so every value that goes from the `props` parameter into the environment goes through core.Copy first.  Otherwise `Env.limits.max = 42` in one location's action changes what the scripts of every other location read", 1)
	fn := w.Func("core", "RunJavascript")
	cp := w.Func("core", "Copy")
	key := "fn=" + fname(fn)
	var props *ssa.Parameter
	for _, p := range fn.Params {
		if p.Name() == "props" {
			props = p
		}
	}
	if props == nil {
		r.exempt("SHARED-TO-JS", key, w.Pos(fn.Pos()), "RunJavascript has no `props` parameter: shape not recognised, not decided")
		return
	}
	fromProps := func(v ssa.Value) bool {
		return dependsOn(v, func(x ssa.Value) bool {
			rg, ok := x.(*ssa.Range)
			return ok && resolveSpill(rg.X) == ssa.Value(props)
		})
	}
	viaCopy := func(v ssa.Value) bool {
		return dependsOn(v, func(x ssa.Value) bool {
			c, ok := x.(*ssa.Call)
			return ok && c.Common().StaticCallee() == cp
		})
	}
	n := 0
	bad := ""
	allInstrs(fn, func(in ssa.Instruction) {
		mu, ok := in.(*ssa.MapUpdate)
		if !ok || !fromProps(mu.Value) {
			return
		}
		n++
		if !viaCopy(mu.Value) {
			bad = w.PosOf(in)
		}
	})
	switch {
	case n == 0:
		r.exempt("SHARED-TO-JS", key, w.Pos(fn.Pos()), "the props do not go into a map here: shape not recognised, not decided")
	case bad != "":
		r.violation("SHARED-TO-JS", key, bad, "a value of the shared CodeProps is put into the script's environment as it is: scripts of different locations write to and read from the same Go map")
	default:
		r.ok("SHARED-TO-JS", key, w.Pos(fn.Pos()), "every prop is copied for the script")
	}
}

// CTX-SCRIPT (C09): a script works on the location that runs it.
func ruleCtxScript(w *World, r *Report) {
	r.Rule("CTX-SCRIPT", "core.RunJavascript builds the script's environment (Env.AddFact, Env.RemFact, Env.Search ...) on `the context's current location` (premise, checked: it reads Context.GetLoc / Location()).  The two places from which rulio runs a location's scripts — Location.ExecAction (actions) and CodeQuery.Exec (conditions) — therefore point the context at their own location (Context.SetLoc with the receiver / the loc parameter) on every path before the script can run: the call dominates every call that (transitively, inside core) reaches RunJavascript.  The context is re-pointed by every search of every ancestor, and a search that fails part-way leaves it at that ancestor: without the re-pointing, the next script of an event for C writes into C's parent", 2)
	run := w.Func("core", "RunJavascript")
	setLoc := w.Method("core", "Context", "SetLoc")
	// premise
	premise := false
	allInstrs(run, func(in ssa.Instruction) {
		if c := callOf(in); c != nil {
			if f := c.StaticCallee(); f != nil && f.Signature.Recv() != nil && (f.Name() == "GetLoc" || f.Name() == "Location") {
				if rn := namedOf(f.Signature.Recv().Type()); rn != nil && typeKey(rn) == "core.Context" {
					premise = true
				}
			}
		}
	})
	if !premise {
		r.exempt("CTX-SCRIPT", "premise", w.Pos(run.Pos()), "premise fails: RunJavascript does not take its location from the context; not decided by this rule")
		return
	}
	// functions of core from which RunJavascript is reachable (static calls and closures made in them)
	reaches := map[*ssa.Function]bool{run: true}
	for changed := true; changed; {
		changed = false
		for _, fn := range w.Funcs {
			if w.RelPkg(fn) != "core" || reaches[fn] || isTestFile(w, fn) {
				continue
			}
			hit := false
			allInstrs(fn, func(in ssa.Instruction) {
				if c := callOf(in); c != nil {
					if f := c.StaticCallee(); f != nil && reaches[f] {
						hit = true
					}
				}
				if mc, ok := in.(*ssa.MakeClosure); ok {
					if g, ok := mc.Fn.(*ssa.Function); ok && reaches[g] {
						hit = true
					}
				}
			})
			if hit {
				reaches[fn], changed = true, true
			}
		}
	}
	type site struct {
		fn  *ssa.Function
		loc ssa.Value
	}
	var sites []site
	if f := w.TryMethod("core", "Location", "ExecAction"); f != nil {
		sites = append(sites, site{f, f.Params[0]})
	}
	if f := w.TryMethod("core", "CodeQuery", "Exec"); f != nil {
		for _, p := range f.Params {
			if pt, ok := p.Type().(*types.Pointer); ok && isNamed(pt.Elem(), modPath+"/core", "Location") {
				sites = append(sites, site{f, p})
			}
		}
	}
	for _, s := range sites {
		key := "fn=" + fname(s.fn)
		var sets, runs []ssa.Instruction
		allInstrs(s.fn, func(in ssa.Instruction) {
			c := callOf(in)
			if c == nil {
				return
			}
			if _, isDefer := in.(*ssa.Defer); isDefer {
				return
			}
			if c.StaticCallee() == setLoc && len(c.Args) == 2 && valueIs(c.Args[1], s.loc) {
				sets = append(sets, in)
			}
			if f := c.StaticCallee(); f != nil && reaches[f] {
				runs = append(runs, in)
			} else if _, isBuiltin := c.Value.(*ssa.Builtin); f == nil && !c.IsInvoke() && !isBuiltin {
				runs = append(runs, in) // a thunk built by a function that reaches RunJavascript
			}
		})
		if len(runs) == 0 {
			r.exempt("CTX-SCRIPT", key, w.Pos(s.fn.Pos()), "no call from here reaches RunJavascript: shape not recognised, not decided")
			continue
		}
		bad, badLoop := "", ""
		for _, rn := range runs {
			dom := false
			for _, st := range sets {
				if instrDominates(st, rn) || controlGuardsNil(s.fn, st, rn, s.loc) {
					dom = true
				}
			}
			if !dom {
				bad = w.PosOf(rn)
			}
			// per round: a script that runs in a loop (one per candidate binding) can leave the context at an ancestor
			// (an inherited search that fails part-way), so the re-pointing is inside the loop as well
			for _, l := range naturalLoops(s.fn) {
				if !l.Body[rn.Block()] {
					continue
				}
				inLoop := false
				for _, st := range sets {
					if l.Body[st.Block()] && (instrDominates(st, rn) || controlGuardsNil(s.fn, st, rn, s.loc)) {
						inLoop = true
					}
				}
				if !inLoop && badLoop == "" {
					badLoop = w.PosOf(rn)
				}
			}
		}
		if bad == "" && badLoop != "" {
			r.violation("CTX-SCRIPT", key+" per-round", badLoop, "the context is pointed at this location once, before the loop in which the scripts run: a candidate's script whose inherited search fails in a parent leaves the context there, and every later candidate's script runs under the parent's control (its time-out, its Env.AddFact)")
			continue
		}
		if bad != "" {
			r.violation("CTX-SCRIPT", key, bad, "a script can be run from here without the context having been pointed at this location: its Env functions then work on whatever location the context was pointed at last")
		} else {
			r.ok("CTX-SCRIPT", key, w.PosOf(sets[0]), "the context is pointed at the location before any script runs")
		}
	}
}

// controlGuardsNil: set is executed on every path to run except those on which loc is nil (`if loc != nil { SetLoc }`).
func controlGuardsNil(fn *ssa.Function, set, run ssa.Instruction, loc ssa.Value) bool {
	// delete the `loc == nil` edges; then every path from entry to run must pass set
	del := map[bedge]bool{}
	for _, b := range fn.Blocks {
		if len(b.Instrs) == 0 {
			continue
		}
		ifi, ok := b.Instrs[len(b.Instrs)-1].(*ssa.If)
		if !ok {
			continue
		}
		ct, ok := decodeIf(ifi)
		if !ok || !valueIs(resolveSpill(ct.V), loc) {
			continue
		}
		if ct.TrueWhen == "nonnil" {
			del[bedge{b, 1}] = true
		} else if ct.TrueWhen == "nil" {
			del[bedge{b, 0}] = true
		}
	}
	if len(del) == 0 {
		return false
	}
	h, _ := reach(fn, nil, func(x ssa.Instruction) bool { return x == run }, func(x ssa.Instruction) bool { return x == set }, edgeFilterOf(del))
	return h == nil
}

// CROLT-ESCAPE (C09, C15, C16): a location name or rule id in a query string is data.
func ruleCroltEscape(prop string) ruleFn {
	return func(w *World, r *Report) {
		r.Rule("CROLT-ESCAPE", "in the methods of cron.CroltSimple, every non-constant string that is concatenated into the URL of a request after a query marker (a constant operand containing `?` or `&` with `=`) goes through net/url's QueryEscape (or url.Values.Encode): the location name and the rule id are chosen by clients.  Unescaped, the location `B&id=r` removing any rule asks the persistent cron to delete job `r` of location `B` (the service reads the first `account` and the first `id`), and an id containing `+`, `&` or `#` is not removed while Rem reports success", 1)
		nt := w.TryNamed("cron", "CroltSimple")
		if nt == nil {
			r.exempt("CROLT-ESCAPE", "type=cron.CroltSimple", "", "type not found: not decided")
			return
		}
		isEscape := func(v ssa.Value) bool {
			c, ok := v.(*ssa.Call)
			if !ok {
				return false
			}
			o := calleeObj(c.Common())
			return o != nil && o.Pkg() != nil && o.Pkg().Path() == "net/url" && (o.Name() == "QueryEscape" || o.Name() == "Encode" || o.Name() == "PathEscape")
		}
		n := 0
		for _, fn := range w.MethodsOf(nt) {
			allInstrs(fn, func(in ssa.Instruction) {
				bo, ok := in.(*ssa.BinOp)
				if !ok || bo.Op != token.ADD {
					return
				}
				if b, isB := bo.Type().Underlying().(*types.Basic); !isB || b.Kind() != types.String {
					return
				}
				// X + Y where X ends a query marker: X is (or ends in) a constant with ?name= / &name=
				marker := func(v ssa.Value) bool {
					if s, ok := constString(v); ok {
						return (strings.Contains(s, "?") || strings.Contains(s, "&")) && strings.HasSuffix(s, "=")
					}
					if b2, ok := v.(*ssa.BinOp); ok && b2.Op == token.ADD {
						if s, ok := constString(b2.Y); ok {
							return (strings.Contains(s, "?") || strings.Contains(s, "&")) && strings.HasSuffix(s, "=")
						}
					}
					return false
				}
				if !marker(bo.X) {
					return
				}
				if _, isC := bo.Y.(*ssa.Const); isC {
					return
				}
				n++
				key := "fn=" + fname(fn) + " query-value#" + itoa(n)
				if dependsOn(bo.Y, isEscape) {
					r.ok("CROLT-ESCAPE", key, w.PosOf(in), "escaped")
				} else {
					r.violation("CROLT-ESCAPE", "fn="+fname(fn), w.PosOf(in), "a client-chosen string goes into the query string of the request unescaped")
				}
			})
		}
		if n == 0 {
			r.exempt("CROLT-ESCAPE", "type=cron.CroltSimple", "", "no query string is concatenated in CroltSimple's methods: shape not recognised, not decided")
		}
	}
}

// PROP-TYPED (C13, C19): what the engine reads back typed is checked when it is written.
func rulePropTyped(prop string) ruleFn {
	return func(w *World, r *Report) {
		r.Rule("PROP-TYPED", "sibling agreement between the readers and the writer of the location-level properties the engine itself depends on: for every property name that core or sys reads with a typed reader (a constant name handed to GetPropString, or to GetProp followed by a type switch — writeKey, readKey, enabled, createdAt, parents, cacheTTL), the validation that core.PrepareFact applies to a location-level property fact (a function it calls that compares the property name with string constants) has a case for that name.  An unreadable value that is stored is a value every later request trips over: a numeric write key blocks every write including its own repair, a non-list `parents` fails every event, a boolean `enabled` is ignored", 4)
		prep := w.Func("core", "PrepareFact")
		// the validator: a function called by PrepareFact that compares a string parameter with constants
		var validator *ssa.Function
		names := map[string]bool{}
		allInstrs(prep, func(in ssa.Instruction) {
			c := callOf(in)
			if c == nil || c.StaticCallee() == nil || !w.IsRulio(c.StaticCallee()) {
				return
			}
			f := c.StaticCallee()
			got := map[string]bool{}
			allInstrs(f, func(x ssa.Instruction) {
				bo, ok := x.(*ssa.BinOp)
				if !ok || bo.Op != token.EQL {
					return
				}
				for _, pr := range [][2]ssa.Value{{bo.X, bo.Y}, {bo.Y, bo.X}} {
					if _, isParam := pr[0].(*ssa.Parameter); isParam {
						if s, ok := constString(pr[1]); ok {
							got[s] = true
						}
					}
				}
			})
			if len(got) >= 2 && len(got) > len(names) {
				validator, names = f, got
			}
		})
		// the readers
		type reader struct {
			name, where string
		}
		var readers []reader
		seen := map[string]bool{}
		for _, fn := range w.Funcs {
			rel := w.RelPkg(fn)
			if (rel != "core" && rel != "sys") || isTestFile(w, fn) {
				continue
			}
			allInstrs(fn, func(in ssa.Instruction) {
				c := callOf(in)
				if c == nil || c.StaticCallee() == nil {
					return
				}
				f := c.StaticCallee()
				if f.Name() != "GetPropString" && f.Name() != "GetProp" {
					return
				}
				if !w.IsRulio(f) {
					return
				}
				// location-level: for core.GetProp(ctx, state, id, prop, def) the id must be the constant ""
				args := c.Args
				var nameArg ssa.Value
				switch {
				case f.Name() == "GetPropString" && f.Signature.Recv() == nil && len(args) >= 3:
					nameArg = args[2]
				case f.Name() == "GetPropString" && len(args) >= 3:
					nameArg = args[2]
				case f.Name() == "GetProp" && f.Signature.Recv() == nil && len(args) >= 4:
					if s, ok := constString(args[2]); !ok || s != "" {
						return
					}
					nameArg = args[3]
				case f.Name() == "GetProp" && len(args) >= 3:
					nameArg = args[2]
				}
				if nameArg == nil {
					return
				}
				if s, ok := constString(nameArg); ok && !seen[s] {
					seen[s] = true
					readers = append(readers, reader{s, w.PosOf(in)})
				}
			})
		}
		if len(readers) == 0 {
			r.exempt("PROP-TYPED", "readers", "", "no typed reader of a location-level property with a constant name found: not decided")
			return
		}
		sort.Slice(readers, func(i, j int) bool { return readers[i].name < readers[j].name })
		for _, rd := range readers {
			key := "prop=" + rd.name
			switch {
			case validator == nil:
				r.violation("PROP-TYPED", key, rd.where, "the engine reads the location property `"+rd.name+"` with a typed reader, and PrepareFact validates no property values at all: an unreadable value is stored and trips every later request")
			case !names[rd.name]:
				r.violation("PROP-TYPED", key, rd.where, "the engine reads the location property `"+rd.name+"` with a typed reader, but "+fname(validator)+" has no case for it")
			default:
				r.ok("PROP-TYPED", key, rd.where, "validated by "+fname(validator)+" when it is written")
			}
		}
	}
}

// PARSE-RECOVER (C13): a schedule that makes the third-party parser panic is a bad schedule.
func ruleParseRecover(w *World, r *Report) {
	r.Rule("PARSE-RECOVER", "cronexpr.Parse (third-party) panics on some ill-formed expressions (a reversed range, `1-0 * * * *`: index out of range), and the schedule of a rule is client input that reaches it through AddRule.  Every call of cronexpr.Parse / MustParse in rulio is therefore made in a function that defers a function that calls recover() and stores into an error result: the panic comes back as the error of a bad schedule instead of going up through the add hook, State.Add, System.AddRule and the service", 2)
	n := 0
	for _, fn := range w.Funcs {
		if !w.IsRulio(fn) || isTestFile(w, fn) {
			continue
		}
		allInstrs(fn, func(in ssa.Instruction) {
			c := callOf(in)
			if c == nil {
				return
			}
			o := calleeObj(c)
			if o == nil || o.Pkg() == nil || !strings.HasSuffix(o.Pkg().Path(), "gorhill/cronexpr") || (o.Name() != "Parse" && o.Name() != "MustParse") {
				return
			}
			n++
			key := "fn=" + fname(fn) + " call=cronexpr." + o.Name()
			host := outermost(fn)
			recovers := false
			withAnon(host, func(g *ssa.Function) {
				if g == host {
					return
				}
				deferred := false
				allInstrs(host, func(x ssa.Instruction) {
					if d, ok := x.(*ssa.Defer); ok {
						if mc, ok := d.Call.Value.(*ssa.MakeClosure); ok && mc.Fn == g {
							deferred = true
						}
						if d.Call.Value == ssa.Value(g) {
							deferred = true
						}
					}
				})
				if !deferred {
					return
				}
				rec, sets := false, false
				allInstrs(g, func(x ssa.Instruction) {
					if cc, ok := x.(*ssa.Call); ok {
						if b, ok := cc.Common().Value.(*ssa.Builtin); ok && b.Name() == "recover" {
							rec = true
						}
					}
					if st, ok := x.(*ssa.Store); ok && isErrorType(st.Val.Type()) {
						sets = true
					}
				})
				if rec && sets {
					recovers = true
				}
			})
			if recovers {
				r.ok("PARSE-RECOVER", key, w.PosOf(in), "a panic of the parser is recovered into the error result")
			} else {
				r.violation("PARSE-RECOVER", key, w.PosOf(in), "cronexpr."+o.Name()+" is called without a deferred recover: an expression that makes the parser panic panics the request")
			}
		})
	}
	if n == 0 {
		r.exempt("PARSE-RECOVER", "call=cronexpr.Parse", "", "no call of cronexpr.Parse in rulio: not decided")
	}
}

// JSON-QUOTE (C18, C15): a string pasted into a JSON text is a JSON string.
func ruleJSONQuote(prop string, pkgs ...string) ruleFn {
	return func(w *World, r *Report) {
		r.Rule("JSON-QUOTE", "no fmt.Sprintf in the service layer (and in the cron hooks, which build the trigger event) builds a JSON object from a constant template in which a `%s` stands between double quotes (`{\"id\":\"%s\"}`) for a string that clients choose or that quotes client data (an id, a location, the text of an error): such a string is rendered with json.Marshal and pasted with a bare %s.  Quotes, backslashes and newlines in the string otherwise make the answer something that is not JSON — or, for the trigger event of a scheduled rule, JSON that names a different rule.  (Inert strings — the request id, a duration, a type name — are listed in the checker.)", 1)
		inert := func(v ssa.Value) bool {
			return dependsOn(v, func(x ssa.Value) bool {
				c, ok := x.(*ssa.Call)
				if !ok {
					return false
				}
				o := calleeObj(c.Common())
				if o == nil {
					return false
				}
				if isMethodOf(o, modPath+"/core", "Context", "Id") {
					return true
				}
				if o.Pkg() != nil && o.Pkg().Path() == "time" && o.Name() == "String" {
					return true
				}
				return false
			})
		}
		n := 0
		for _, fn := range w.Funcs {
			rel := w.RelPkg(fn)
			okPkg := false
			for _, p := range pkgs {
				if rel == p {
					okPkg = true
				}
			}
			if !okPkg || isTestFile(w, fn) {
				continue
			}
			allInstrs(fn, func(in ssa.Instruction) {
				c := callOf(in)
				if c == nil || !isPkgFunc(calleeObj(c), "fmt", "Sprintf") || len(c.Args) < 2 {
					return
				}
				format, ok := constString(c.Args[0])
				if !ok || !strings.HasPrefix(strings.TrimSpace(format), "{") {
					return
				}
				// the verbs in order; which of them are quoted %s
				var quoted []bool
				for i := 0; i+1 < len(format); i++ {
					if format[i] != '%' {
						continue
					}
					if format[i+1] == '%' {
						i++
						continue
					}
					j := i + 1
					for j < len(format) && strings.ContainsRune("+-# 0123456789.", rune(format[j])) {
						j++
					}
					if j >= len(format) {
						break
					}
					q := format[j] == 's' && i > 0 && format[i-1] == '"' && j+1 < len(format) && format[j+1] == '"'
					quoted = append(quoted, q)
					i = j
				}
				// the variadic arguments: stores into the backing array of the slice literal
				args := variadicArgs(c.Args[1])
				for vi, q := range quoted {
					if !q {
						continue
					}
					n++
					key := "fn=" + fname(fn) + " format=" + format
					if vi >= len(args) || args[vi] == nil {
						r.exempt("JSON-QUOTE", key, w.PosOf(in), "could not identify the argument of the quoted %s: not decided")
						continue
					}
					a := args[vi]
					if _, isC := a.(*ssa.Const); isC || inert(a) {
						r.ok("JSON-QUOTE", key, w.PosOf(in), "an inert string (request id, duration)")
						continue
					}
					r.violation("JSON-QUOTE", key, w.PosOf(in), "a string is pasted between quotes into a JSON template without being rendered as a JSON string: a quote or backslash in it breaks (or changes the meaning of) the JSON")
				}
			})
		}
		r.stat("JSON-QUOTE.quoted_verbs", n)
		if n == 0 {
			r.ok("JSON-QUOTE", "none", "", "no JSON template pastes a string between quotes")
		}
	}
}

// variadicArgs: the values stored into the backing array of a variadic call's slice argument, by index.
func variadicArgs(v ssa.Value) []ssa.Value {
	sl, ok := v.(*ssa.Slice)
	if !ok {
		return nil
	}
	al, ok := sl.X.(*ssa.Alloc)
	if !ok {
		return nil
	}
	var out []ssa.Value
	for _, ref := range *al.Referrers() {
		ia, ok := ref.(*ssa.IndexAddr)
		if !ok {
			continue
		}
		idx, ok := ia.Index.(*ssa.Const)
		if !ok || idx.Value == nil {
			continue
		}
		i := int(idx.Int64())
		for _, ref2 := range *ia.Referrers() {
			if st, ok := ref2.(*ssa.Store); ok && st.Addr == ssa.Value(ia) {
				for len(out) <= i {
					out = append(out, nil)
				}
				val := st.Val
				if mi, ok := val.(*ssa.MakeInterface); ok {
					val = mi.X
				}
				out[i] = val
			}
		}
	}
	return out
}

// PARAM-PRESENCE (C18): a parameter's value decides, not its presence.
func ruleParamPresence(w *World, r *Report) {
	r.Rule("PARAM-PRESENCE", "in Service.ProcessRequest no call into the System is control-dependent on the mere presence of a key in the request map (the `ok` of a comma-ok lookup with a constant key, tested directly): `take=false` — in a query string, a JSON body or YAML — has to mean false.  (The typed getters return the value and a `given` flag; PARAM-VALUE decides that the flag is not used as the value.)", 1)
	fn := w.Method("service", "Service", "ProcessRequest")
	key := "fn=" + fname(fn)
	sysT := w.Named("sys", "System")
	n := 0
	bad := ""
	for _, b := range fn.Blocks {
		if len(b.Instrs) == 0 {
			continue
		}
		ifi, ok := b.Instrs[len(b.Instrs)-1].(*ssa.If)
		if !ok {
			continue
		}
		ct, ok := decodeIf(ifi)
		if !ok {
			continue
		}
		ex, ok := resolveSpill(ct.V).(*ssa.Extract)
		if !ok || ex.Index != 1 {
			continue
		}
		lk, ok := ex.Tuple.(*ssa.Lookup)
		if !ok || !lk.CommaOk {
			continue
		}
		k, isC := constKey(lk.Index)
		if !isC || resolveSpill(lk.X) != ssa.Value(fn.Params[2]) {
			continue
		}
		n++
		// does the `present` branch alone lead to a System call?
		present := b.Succs[0]
		absent := b.Succs[1]
		if ct.TrueWhen == "false" {
			present, absent = absent, present
		}
		callsSys := func(start, avoid *ssa.BasicBlock) bool {
			seen := map[*ssa.BasicBlock]bool{}
			var dfs func(x *ssa.BasicBlock) bool
			dfs = func(x *ssa.BasicBlock) bool {
				if seen[x] || x == avoid {
					return false
				}
				seen[x] = true
				for _, in := range x.Instrs {
					if c := callOf(in); c != nil {
						if f := c.StaticCallee(); f != nil && f.Signature.Recv() != nil {
							if rn := namedOf(f.Signature.Recv().Type()); rn != nil && types.Identical(rn, sysT) {
								return true
							}
						}
					}
				}
				for _, s := range x.Succs {
					if !x.Dominates(s) {
						continue // stay inside the region the branch dominates
					}
					if dfs(s) {
						return true
					}
				}
				return false
			}
			return dfs(start)
		}
		// a required parameter (absent => an error return) is not a switch
		absentRefuses := false
		if len(absent.Instrs) > 0 {
			if ret, ok := absent.Instrs[len(absent.Instrs)-1].(*ssa.Return); ok && !isSuccessReturnPS(ret) {
				absentRefuses = true
			}
		}
		if absentRefuses {
			continue
		}
		if b.Dominates(present) && present != absent && callsSys(present, absent) && !blockReaches(absent, present, b) {
			bad = w.PosOf(ifi) + " (key " + k + ")"
		}
	}
	switch {
	case bad != "":
		r.violation("PARAM-PRESENCE", key, bad, "a System operation is performed because a parameter is present, whatever its value: `take=false` removes the facts it finds")
	default:
		r.ok("PARAM-PRESENCE", key, w.Pos(fn.Pos()), itoa(n)+" direct presence test(s) of request keys, none decides a System operation")
	}
}

// CRON-INFLIGHT (C15, C16): a job that is running can still be removed.
func ruleCronInflight(prop string) ruleFn {
	return func(w *World, r *Report) {
		r.Rule("CRON-INFLIGHT", "the in-memory cron takes a due job out of the timeline before it runs it and puts a recurring one back afterwards (CRON-RESCHED), so while the job's function runs it is in no timeline.  Therefore (a) Cron.rem, besides scanning the timeline, looks the id up in a set of running jobs (a map field of Cron keyed by the id) and marks the job it finds there (a store into a CronJob field), and (b) in Cron.schedule the insertion is control-dependent on that mark (read directly or through a method of Cron): a job removed — or replaced, which removes first — while it runs stays out.  Without it a Rem in that window answers `not found` and the job ticks for ever, and a replacement is evicted by the job it replaced", 2)
		rem := w.Method("cron", "Cron", "rem")
		sched := w.Method("cron", "Cron", "schedule")
		insert := w.Method("cron", "Cron", "insert")
		// (a)
		var idParam ssa.Value
		for _, p := range rem.Params {
			if b, ok := p.Type().Underlying().(*types.Basic); ok && b.Kind() == types.String {
				idParam = p
			}
		}
		looksUp := false
		flag := ""
		allInstrs(rem, func(in ssa.Instruction) {
			if lk, ok := in.(*ssa.Lookup); ok && idParam != nil && dependsOn(lk.Index, func(v ssa.Value) bool { return v == idParam }) {
				if n, _, _, ok := loadedField(resolveSpill(lk.X)); ok && typeKey(n) == "cron.Cron" {
					if _, isMap := lk.X.Type().Underlying().(*types.Map); isMap {
						looksUp = true
					}
				}
			}
			if st, ok := in.(*ssa.Store); ok {
				if n, f, _, ok := fieldOf(st.Addr); ok && typeKey(n) == "cron.CronJob" {
					flag = f
				}
			}
		})
		keyA := "fn=" + fname(rem)
		if looksUp && flag != "" {
			r.ok("CRON-INFLIGHT", keyA, w.Pos(rem.Pos()), "rem also finds a job that is running, and marks it (CronJob."+flag+")")
		} else {
			r.violation("CRON-INFLIGHT", keyA, w.Pos(rem.Pos()), "rem only scans the timeline: a job whose function is running is not found, is put back after the tick and fires for ever")
		}
		// (b)
		keyB := "fn=" + fname(sched)
		var inserts []ssa.Instruction
		allInstrs(sched, func(in ssa.Instruction) {
			if c := callOf(in); c != nil && c.StaticCallee() == insert {
				inserts = append(inserts, in)
			}
		})
		if len(inserts) == 0 {
			r.exempt("CRON-INFLIGHT", keyB, w.Pos(sched.Pos()), "schedule does not call insert: shape not recognised, not decided")
			return
		}
		readsFlag := func(f *ssa.Function) bool {
			found := false
			allInstrs(f, func(in ssa.Instruction) {
				if u, ok := in.(*ssa.UnOp); ok && u.Op == token.MUL {
					if n, fl, _, ok := fieldOf(u.X); ok && typeKey(n) == "cron.CronJob" && fl == flag {
						found = true
					}
				}
			})
			return found
		}
		pred := func(v ssa.Value) bool {
			if n, fl, _, ok := loadedField(v); ok && typeKey(n) == "cron.CronJob" && fl == flag {
				return true
			}
			if c, ok := v.(*ssa.Call); ok {
				if f := c.Common().StaticCallee(); f != nil && f.Signature.Recv() != nil && readsFlag(f) {
					return true
				}
			}
			return false
		}
		okB := flag != ""
		for _, ins := range inserts {
			// some branch on the mark has one side that cannot reach the insertion (the path that puts a job back; the
			// path that adds a new job does not pass that branch)
			guarded := false
			for _, b := range sched.Blocks {
				if len(b.Instrs) == 0 {
					continue
				}
				ifi, ok := b.Instrs[len(b.Instrs)-1].(*ssa.If)
				if !ok || !dependsOn(ifi.Cond, pred) {
					continue
				}
				r0 := b.Succs[0] == ins.Block() || blockReaches(b.Succs[0], ins.Block(), b)
				r1 := b.Succs[1] == ins.Block() || blockReaches(b.Succs[1], ins.Block(), b)
				if r0 != r1 {
					guarded = true
				}
			}
			if !guarded {
				okB = false
			}
		}
		if okB {
			r.ok("CRON-INFLIGHT", keyB, w.PosOf(inserts[0]), "a job marked as removed while it ran is not inserted again")
		} else {
			r.violation("CRON-INFLIGHT", keyB, w.PosOf(inserts[0]), "schedule puts a job back whether or not it was removed or replaced while it ran")
		}
	}
}

// JITTER-NONNEG (C16): jitter never moves a job before its due time.
func ruleJitterNonneg(w *World, r *Report) {
	r.Rule("JITTER-NONNEG", "crolt adds Cron.Jitter() to the occurrence it computed (AT-UTC decides what it is added to): a job fires no earlier than its due time only if the jitter is never negative.  Jitter's result is a product of the random fraction [0,1) and MaxJitter; nothing is subtracted from it (no subtraction on the way from the random number to the result).  A jitter centred on zero stores half of all entries before their occurrence: they fire early, and the re-computed `next` of a job that fired early is the same occurrence — which then fires again", 1)
	fn := w.Method("crolt", "Cron", "Jitter")
	key := "fn=" + fname(fn)
	isRand := func(v ssa.Value) bool {
		c, ok := v.(*ssa.Call)
		if !ok {
			return false
		}
		o := calleeObj(c.Common())
		return o != nil && o.Pkg() != nil && strings.HasPrefix(o.Pkg().Path(), "math/rand")
	}
	n := 0
	bad := ""
	allInstrs(fn, func(in ssa.Instruction) {
		ret, ok := in.(*ssa.Return)
		if !ok || len(ret.Results) == 0 {
			return
		}
		v := resolveSpill(ret.Results[0])
		if !dependsOn(v, isRand) {
			return
		}
		n++
		if dependsOn(v, func(x ssa.Value) bool {
			b, ok := x.(*ssa.BinOp)
			return ok && b.Op == token.SUB && (dependsOn(b.X, isRand) || dependsOn(b.Y, isRand))
		}) {
			bad = w.PosOf(in)
		}
		if dependsOn(v, func(x ssa.Value) bool {
			u, ok := x.(*ssa.UnOp)
			return ok && u.Op == token.SUB
		}) {
			bad = w.PosOf(in)
		}
	})
	switch {
	case n == 0:
		r.exempt("JITTER-NONNEG", key, w.Pos(fn.Pos()), "Jitter's result does not derive from math/rand: shape not recognised, not decided")
	case bad != "":
		r.violation("JITTER-NONNEG", key, bad, "something is subtracted on the way from the random number to the jitter: the jitter can be negative, and a job whose entry is stored before its occurrence fires early (and again)")
	default:
		r.ok("JITTER-NONNEG", key, w.Pos(fn.Pos()), "the jitter is a non-negative fraction of MaxJitter")
	}
}

// CROLT-STATUS (C15, C16): a refusal by the cron service is a refusal.
func ruleCroltStatus(prop string) ruleFn {
	return func(w *World, r *Report) {
		r.Rule("CROLT-STATUS", "core.HTTPRequest.Do returns an error only when the exchange itself failed; a 4xx answer is a successful exchange.  crolt answers 400 to a schedule it does not understand (`!TIME` one-shots, `?props` suffixes) and to a job that exists.  Therefore in CroltSimple.Schedule (through which every scheduled rule of a system with the persistent cron is registered) a non-nil error return is control-dependent on the Status of the answer: otherwise AddRule reports success for a rule that is not, and will never be, scheduled", 1)
		nt := w.TryNamed("cron", "CroltSimple")
		if nt == nil {
			r.exempt("CROLT-STATUS", "type=cron.CroltSimple", "", "type not found: not decided")
			return
		}
		fn := w.TryMethod("cron", "CroltSimple", "Schedule")
		if fn == nil {
			r.exempt("CROLT-STATUS", "fn=cron.CroltSimple.Schedule", "", "method not found: not decided")
			return
		}
		key := "fn=" + fname(fn)
		var dos []*ssa.Call
		allInstrs(fn, func(in ssa.Instruction) {
			if c, ok := in.(*ssa.Call); ok {
				if o := calleeObj(c.Common()); o != nil && isMethodOf(o, modPath+"/core", "HTTPRequest", "Do") {
					dos = append(dos, c)
				}
			}
		})
		if len(dos) == 0 {
			r.exempt("CROLT-STATUS", key, w.Pos(fn.Pos()), "Schedule makes no HTTP request: shape not recognised, not decided")
			return
		}
		isStatus := func(v ssa.Value) bool {
			n, f, base, ok := loadedField(v)
			if !ok || f != "Status" || n == nil {
				return false
			}
			_ = base
			return true
		}
		refusal := false
		allInstrs(fn, func(in ssa.Instruction) {
			if _, ok := in.(*ssa.Return); ok && !isSuccessReturnPS(in) && controlDependsOn(fn, in, isStatus) {
				refusal = true
			}
		})
		if refusal {
			r.ok("CROLT-STATUS", key, w.PosOf(dos[0]), "an answer that is not a 2xx is an error")
		} else {
			r.violation("CROLT-STATUS", key, w.PosOf(dos[0]), "the status of the cron service's answer is never looked at: a refused job is reported as scheduled")
		}
	}
}

// BRK-INTERVAL (C20, C13): an interval too short to be divided into ticks is refused.
func ruleBrkInterval(prop string) ruleFn {
	return func(w *World, r *Report) {
		r.Rule("BRK-INTERVAL", "OutboundBreaker divides by the tick length (interval / ticks, in whole nanoseconds) on every call.  The function that sets `interval` (init, reached from NewOutboundBreaker and Adjust) refuses an interval for which that length is zero: an error return is control-dependent on a comparison that involves the interval parameter.  Otherwise NewOutboundBreaker(limit, 10) succeeds and the first Do, Status or Summary panics (integer divide by zero) while it holds the breaker's mutex", 1)
		const ob = "core.OutboundBreaker"
		n := 0
		for _, fn := range w.Funcs {
			if w.RelPkg(fn) != "core" || isTestFile(w, fn) {
				continue
			}
			var store ssa.Instruction
			var src ssa.Value
			allInstrs(fn, func(in ssa.Instruction) {
				if st, ok := storesToField(in, ob, "interval"); ok {
					if p, isP := st.Val.(*ssa.Parameter); isP {
						store, src = in, p
					}
				}
			})
			if store == nil {
				continue
			}
			n++
			key := "fn=" + fname(fn)
			refuses := false
			allInstrs(fn, func(in ssa.Instruction) {
				if _, ok := in.(*ssa.Return); !ok || isSuccessReturnPS(in) {
					return
				}
				if controlDependsOn(fn, in, func(v ssa.Value) bool {
					b, ok := v.(*ssa.BinOp)
					if !ok {
						return false
					}
					switch b.Op {
					case token.LSS, token.LEQ, token.GTR, token.GEQ, token.EQL:
					default:
						return false
					}
					return dependsOn(b.X, func(x ssa.Value) bool { return x == src }) || dependsOn(b.Y, func(x ssa.Value) bool { return x == src })
				}) {
					refuses = true
				}
			})
			if refuses {
				r.ok("BRK-INTERVAL", key, w.PosOf(store), "an interval that cannot be divided into ticks is refused")
			} else {
				r.violation("BRK-INTERVAL", key, w.PosOf(store), "any interval is accepted: below one nanosecond per tick the tick length is zero and every later call divides by it")
			}
		}
		if n == 0 {
			r.exempt("BRK-INTERVAL", "field="+ob+".interval", "", "no function stores a parameter into OutboundBreaker.interval: shape not recognised, not decided")
		}
	}
}

// CRON-LIMIT-FIRST (C15, C16): a replacement that is refused leaves the job it was to replace.
func ruleCronLimitFirst(prop string) ruleFn {
	return func(w *World, r *Report) {
		r.Rule("CRON-LIMIT-FIRST", "Cron.schedule replaces the pending entry with the job's id (CRON-UNIQ: remove, then insert, in one critical section).  Every reason to refuse the job — the capacity limit — is examined before the removal: from the call of Cron.rem no error return is reachable except the one that hands on rem's own error.  A refusal after the removal leaves the caller with an error, the old rule still stored, and no job for it", 1)
		sched := w.Method("cron", "Cron", "schedule")
		rem := w.Method("cron", "Cron", "rem")
		key := "fn=" + fname(sched)
		var rems []*ssa.Call
		allInstrs(sched, func(in ssa.Instruction) {
			if c, ok := in.(*ssa.Call); ok && c.Common().StaticCallee() == rem {
				rems = append(rems, c)
			}
		})
		if len(rems) == 0 {
			r.exempt("CRON-LIMIT-FIRST", key, w.Pos(sched.Pos()), "schedule does not call rem: shape not recognised, not decided")
			return
		}
		bad := ""
		for _, rc := range rems {
			rc := rc
			isOtherErr := func(in ssa.Instruction) bool {
				ret, ok := in.(*ssa.Return)
				if !ok {
					return false
				}
				idx := errorResultIndex(sched.Signature)
				if idx < 0 || idx >= len(ret.Results) {
					return false
				}
				// a shared `return err` whose err merges nil with an error made after the removal
				fromRem := func(v ssa.Value) bool {
					e, ok := v.(*ssa.Extract)
					return ok && e.Tuple == ssa.Value(rc)
				}
				other := false
				var walk func(v ssa.Value, seen map[ssa.Value]bool)
				walk = func(v ssa.Value, seen map[ssa.Value]bool) {
					v = resolveSpill(v)
					if seen[v] {
						return
					}
					seen[v] = true
					if p, ok := v.(*ssa.Phi); ok {
						for _, e := range p.Edges {
							walk(e, seen)
						}
						return
					}
					if isNilConst(v) || dependsOn(v, fromRem) {
						return
					}
					// an error value of its own: only counts if it was made after the removal
					if vi, ok := v.(ssa.Instruction); ok && !reachable(sched, rc, vi) {
						return
					}
					other = true
				}
				walk(ret.Results[idx], map[ssa.Value]bool{})
				return other
			}
			if h, _ := reach(sched, rc, isOtherErr, nil, nil); h != nil {
				bad = w.PosOf(h)
			}
		}
		if bad != "" {
			r.violation("CRON-LIMIT-FIRST", key, bad, "the job can still be refused after the entry it replaces was removed: a refused replacement leaves the old rule without its job")
		} else {
			r.ok("CRON-LIMIT-FIRST", key, w.PosOf(rems[0]), "nothing refuses the job after the removal")
		}
	}
}

// LOCK-SEND (C16, C13): nobody waits for the loop while holding what the loop needs.
func ruleLockSend(prop string) ruleFn {
	return func(w *World, r *Report) {
		r.Rule("LOCK-SEND", "no method of cron.Cron sends on a channel (a blocking send, outside a select) while it holds the cron's mutex: the processing loop, which is the only receiver of the control channel, takes that mutex itself (after a pause, on every tick).  A command sent with the lock held when the channel is full waits for the loop, the loop waits for the lock: nothing fires again and every Add, Rem and command hangs", 1)
		nt := w.Named("cron", "Cron")
		e := newLocksetEngine(w, nil)
		lock := "cron.Cron.Mutex"
		n := 0
		bad := ""
		for _, fn := range w.MethodsOf(nt) {
			withAnon(fn, func(g *ssa.Function) {
				var acq []ssa.Instruction
				allInstrs(g, func(in ssa.Instruction) {
					if e.acquires(in, lock) {
						acq = append(acq, in)
					}
				})
				allInstrs(g, func(in ssa.Instruction) {
					snd, ok := in.(*ssa.Send)
					if !ok {
						return
					}
					_ = snd
					n++
					for _, a := range acq {
						if reachable(g, a, in) && between(g, a, in, func(x ssa.Instruction) bool { return e.releases(x, lock) }) == nil {
							bad = w.PosOf(in)
						}
					}
				})
			})
		}
		switch {
		case bad != "":
			r.violation("LOCK-SEND", "type=cron.Cron", bad, "a blocking channel send is made with the cron's mutex held")
		default:
			r.ok("LOCK-SEND", "type=cron.Cron", "", itoa(n)+" channel send(s) in Cron's methods, none with the mutex held")
		}
	}
}

// CRON-START-ARMS (C16): a loop that starts looks at what is pending.
func ruleCronStartArms(w *World, r *Report) {
	r.Rule("CRON-START-ARMS", "the processing loop of the in-memory cron only acts when its timer fires, and only Add, a tick and `resume` arm the timer (CRON-REARM).  Therefore Cron.Start arms it once before it first waits: with the `suspended by the broadcaster` edge deleted, every path from the entry to the loop's select passes a call of resetTimer / resetTimerLocked.  Kill stops the timer; a loop started again afterwards (the API allows it) otherwise never fires what is pending until somebody adds a job", 1)
	fn := w.Method("cron", "Cron", "start")
	key := "fn=" + fname(fn)
	isArm := func(in ssa.Instruction) bool {
		c := callOf(in)
		if c == nil || c.StaticCallee() == nil {
			return false
		}
		n := c.StaticCallee().Name()
		return n == "resetTimer" || n == "resetTimerLocked"
	}
	isSelect := func(in ssa.Instruction) bool { _, ok := in.(*ssa.Select); return ok }
	// edges on which the broadcaster says `suspended`
	del := map[bedge]bool{}
	for _, b := range fn.Blocks {
		if len(b.Instrs) == 0 {
			continue
		}
		ifi, ok := b.Instrs[len(b.Instrs)-1].(*ssa.If)
		if !ok {
			continue
		}
		ct, ok := decodeIf(ifi)
		if !ok {
			continue
		}
		ex, ok := resolveSpill(ct.V).(*ssa.Extract)
		if !ok || ex.Index != 1 {
			continue
		}
		if c, ok := ex.Tuple.(*ssa.Call); !ok || c.Common().StaticCallee() == nil || c.Common().StaticCallee().Name() != "Get" {
			continue
		}
		if ct.TrueWhen == "true" {
			del[bedge{b, 0}] = true
		} else if ct.TrueWhen == "false" {
			del[bedge{b, 1}] = true
		}
	}
	hasSelect := false
	allInstrs(fn, func(in ssa.Instruction) {
		if isSelect(in) {
			hasSelect = true
		}
	})
	if !hasSelect {
		r.exempt("CRON-START-ARMS", key, w.Pos(fn.Pos()), "Start has no select: shape not recognised, not decided")
		return
	}
	if h, _ := reach(fn, nil, isSelect, isArm, edgeFilterOf(del)); h != nil {
		r.violation("CRON-START-ARMS", key, w.PosOf(h), "the loop can start waiting without having armed its timer: what is pending when it starts (after a Kill) never fires")
		return
	}
	r.ok("CRON-START-ARMS", key, w.Pos(fn.Pos()), "the timer is armed before the loop first waits")
}

// FMT-CONST (C18): an error text is data, not a format.
func ruleFmtConst(w *World, r *Report) {
	r.Rule("FMT-CONST", "no call of fmt.Fprintf / Sprintf / Errorf / Printf in the service package has a format argument that is not a constant: the text of an error (which quotes client data: ids, parameter values, script messages) used as a format turns every `%` in it into a verb — `100%d` reaches the client as `100%!d(MISSING)`, so the error response is not the error the operation reported", 1)
	n := 0
	bad := 0
	for _, fn := range w.Funcs {
		if w.RelPkg(fn) != "service" || isTestFile(w, fn) {
			continue
		}
		allInstrs(fn, func(in ssa.Instruction) {
			c := callOf(in)
			if c == nil {
				return
			}
			o := calleeObj(c)
			if o == nil || o.Pkg() == nil || o.Pkg().Path() != "fmt" {
				return
			}
			idx := -1
			switch o.Name() {
			case "Sprintf", "Errorf", "Printf":
				idx = 0
			case "Fprintf":
				idx = 1
			}
			if idx < 0 || idx >= len(c.Args) {
				return
			}
			n++
			if _, isC := c.Args[idx].(*ssa.Const); !isC {
				bad++
				r.violation("FMT-CONST", "fn="+fname(fn), w.PosOf(in), "fmt."+o.Name()+" is given a format that is not a constant")
			}
		})
	}
	if bad == 0 {
		r.ok("FMT-CONST", "pkg=service", "", itoa(n)+" formatted-print calls, all with constant formats")
	}
}

// URI-PATH-WINS (C18): the operation is the one the request was sent to.
func ruleURIPathWins(w *World, r *Report) {
	r.Rule("URI-PATH-WINS", "in service.GetHTTPRequest, outside the two envelope endpoints (which take the operation from the body by design), the entry \"uri\" of the request map is set from the request's path *after* everything that decodes client data into that map: from the map update m[\"uri\"] = r.URL.Path no call that fills the map from the body or the query string (json.Unmarshal, UnmarshalYAML, the query parser) is reachable.  Otherwise a POST to /api/loc/admin/size whose body says \"uri\":\"/api/loc/admin/delete\" deletes the location", 1)
	fn := w.Func("service", "GetHTTPRequest")
	key := "fn=" + fname(fn)
	var sets []ssa.Instruction
	allInstrs(fn, func(in ssa.Instruction) {
		mu, ok := in.(*ssa.MapUpdate)
		if !ok {
			return
		}
		if k, isC := constKey(mu.Key); !isC || k != "uri" {
			return
		}
		if dependsOn(mu.Value, func(v ssa.Value) bool {
			_, f, _, ok := loadedField(v)
			return ok && f == "Path"
		}) {
			sets = append(sets, in)
		}
	})
	if len(sets) == 0 {
		r.exempt("URI-PATH-WINS", key, w.Pos(fn.Pos()), "the request map's uri is not set from the request path here: shape not recognised, not decided")
		return
	}
	isFill := func(in ssa.Instruction) bool {
		c := callOf(in)
		if c == nil {
			return false
		}
		if o := calleeObj(c); o != nil {
			if isPkgFunc(o, "encoding/json", "Unmarshal") || o.Name() == "UnmarshalYAML" {
				return true
			}
		}
		// the query parser: a closure of this function (called through its value)
		if f := c.StaticCallee(); f != nil && f.Parent() == fn {
			return true
		}
		if _, isClosure := c.Value.(*ssa.MakeClosure); isClosure {
			return true
		}
		return false
	}
	for _, s := range sets {
		if h, _ := reach(fn, s, isFill, nil, nil); h != nil {
			r.violation("URI-PATH-WINS", key, w.PosOf(s), "client data is decoded into the request map (at "+w.PosOf(h)+") after its uri was set from the path: a `uri` in the body or query string replaces the operation the request was sent to")
			return
		}
	}
	r.ok("URI-PATH-WINS", key, w.PosOf(sets[0]), "the path is written last")
	// envelope clause: which endpoint a request is for (an envelope, or an operation) is decided from the same thing:
	// every DWIMURI call in GetHTTPRequest is given the URL's Path, never the whole request target (URL.String(), which is
	// an absolute URL for a request that came through a proxy: `POST http://host/api/json` was an unknown URI)
	dwim := w.TryFunc("service", "DWIMURI")
	nd := 0
	var whole ssa.Instruction
	allInstrs(fn, func(in ssa.Instruction) {
		c := callOf(in)
		if c == nil || dwim == nil || c.StaticCallee() != dwim || len(c.Args) < 2 {
			return
		}
		nd++
		if dependsOn(c.Args[1], func(v ssa.Value) bool {
			cc, ok := v.(*ssa.Call)
			if !ok || cc.Common().StaticCallee() == nil {
				return false
			}
			f := cc.Common().StaticCallee()
			return f.Pkg != nil && f.Pkg.Pkg.Path() == "net/url" && (f.Name() == "String" || f.Name() == "RequestURI")
		}) {
			whole = in
		}
	})
	switch {
	case nd == 0:
		r.exempt("URI-PATH-WINS", key+" envelope", w.Pos(fn.Pos()), "GetHTTPRequest does not call DWIMURI: shape not recognised, not decided")
	case whole != nil:
		r.violation("URI-PATH-WINS", key+" envelope", w.PosOf(whole), "the endpoint is recognised from the whole request target, the operation from the path: an absolute-form target (`POST http://host/api/json`) is an envelope by its path and an unknown URI by its target")
	default:
		r.ok("URI-PATH-WINS", key+" envelope", w.Pos(fn.Pos()), "the endpoint is recognised from the path")
	}
}

// CAST-ALL-INPUTS (C05): everything the matcher is handed has been cast.
func ruleCastAllInputs(w *World, r *Report) {
	r.Rule("CAST-ALL-INPUTS", "core.CastMatcher exists because the wrapped matcher only understands the types a JSON decoder produces.  In CastMatcher.Match every argument handed on to the wrapped matcher's Match — pattern, fact *and* the initial bindings, whose values the matcher uses as patterns where their variables occur — derives from core.cast (directly, or as a freshly built map whose values do).  Bindings passed through as they are make a Go-typed value in them (core.Map, []string: what rulio's own code puts there) an `unknown pattern type` error, or a match that is omitted", 3)
	fn := w.Method("core", "CastMatcher", "Match")
	key := "fn=" + fname(fn)
	cast := w.Func("core", "cast")
	isCast := func(v ssa.Value) bool {
		c, ok := v.(*ssa.Call)
		if !ok || c.Common().StaticCallee() == nil {
			return false
		}
		if c.Common().StaticCallee() == cast {
			return true
		}
		// a variant of the cast (copy only where something changes): a function with a case for every number kind
		y, _ := numericCanon(c.Common().StaticCallee(), 2)
		return y
	}
	var delegate *ssa.CallCommon
	var at ssa.Instruction
	allInstrs(fn, func(in ssa.Instruction) {
		if c := callOf(in); c != nil && c.IsInvoke() && c.Method.Name() == "Match" {
			delegate, at = c, in
		}
	})
	if delegate == nil {
		r.exempt("CAST-ALL-INPUTS", key, w.Pos(fn.Pos()), "no delegation to a wrapped matcher found: shape not recognised, not decided")
		return
	}
	for i, a := range delegate.Args {
		name := "arg#" + itoa(i)
		ok := dependsOn(a, isCast)
		if !ok {
			// a freshly built map (possibly merged with nil in a phi) filled with cast values
			var roots []ssa.Value
			var walk func(v ssa.Value, seen map[ssa.Value]bool)
			walk = func(v ssa.Value, seen map[ssa.Value]bool) {
				v = resolveSpill(v)
				if seen[v] {
					return
				}
				seen[v] = true
				switch t := v.(type) {
				case *ssa.Phi:
					for _, e := range t.Edges {
						walk(e, seen)
					}
				case *ssa.ChangeType:
					walk(t.X, seen)
				default:
					roots = append(roots, v)
				}
			}
			walk(a, map[ssa.Value]bool{})
			all := len(roots) > 0
			for _, rt := range roots {
				if isNilConst(rt) {
					continue
				}
				mm, isMake := rt.(*ssa.MakeMap)
				filled := false
				if isMake {
					allInstrs(fn, func(in ssa.Instruction) {
						if mu, ok := in.(*ssa.MapUpdate); ok && resolveSpill(mu.Map) == ssa.Value(mm) && dependsOn(mu.Value, isCast) {
							filled = true
						}
					})
				}
				if !filled {
					all = false
				}
			}
			ok = all
		}
		if ok {
			r.ok("CAST-ALL-INPUTS", key+" "+name, w.PosOf(at), "cast before it is handed to the wrapped matcher")
		} else {
			r.violation("CAST-ALL-INPUTS", key+" "+name, w.PosOf(at), "this argument reaches the wrapped matcher as the caller gave it: a Go-typed value in it is not understood")
		}
	}
}

// CAST-NUMBERS (C05): a Go integer is a number wherever it sits.
func ruleCastNumbers(w *World, r *Report) {
	r.Rule("CAST-NUMBERS", "the wrapped matcher compares numbers as float64 and converts a Go integer itself only when it is the whole pattern or fact, not when it is a member of an array.  core.cast, which prepares every input, therefore has cases for the integer types that reach it — int (Go callers; typed slices are unpacked by ISlice) and int64 (what the script engine exports for an integral value) — in its type switch.  Without them `[1]` from a Go caller or from a code condition never matches the `[1, 2]` of a stored JSON fact, although `1` matches `1`", 1)
	fn := w.Func("core", "cast")
	key := "fn=" + fname(fn)
	have := assertedTypes(fn, func(v ssa.Value) bool { return v == ssa.Value(fn.Params[0]) })
	var missing []string
	for t := range goNumericTypes {
		if t != "float64" && !have[t] {
			missing = append(missing, t)
		}
	}
	sort.Strings(missing)
	if len(missing) > 0 {
		r.violation("CAST-NUMBERS", key, w.Pos(fn.Pos()), "cast has no case for "+strings.Join(missing, ", ")+": such a number inside an array is compared as a structure and never equals a JSON number")
		return
	}
	r.ok("CAST-NUMBERS", key, w.Pos(fn.Pos()), "Go integers are converted to float64")
}

// ---- round 6 ---------------------------------------------------------------------------------------------------

func lookupOfKey(key string) func(ssa.Value) bool {
	return func(v ssa.Value) bool {
		lk, ok := v.(*ssa.Lookup)
		if !ok {
			return false
		}
		k, ok := constKey(lk.Index)
		return ok && k == key
	}
}

var goNumericTypes = map[string]bool{"int": true, "int8": true, "int16": true, "int32": true, "int64": true, "uint": true, "uint8": true, "uint16": true, "uint32": true, "uint64": true, "float32": true, "float64": true}

// EXP-TYPES-AGREE (C07): the two encodings of an expiry accept the same numbers, and what is stored can be read.
func ruleExpTypesAgree(w *World, r *Report) {
	r.Rule("EXP-TYPES-AGREE", "core.setExpires decides with two type switches what a `ttl` and what an `expires` may be.  (1) Every Go number type accepted as a ttl is accepted as an expires: otherwise Map{\"ttl\": 100} is a lease and Map{\"expires\": int(...)} from the same caller is refused.  (2) Every type accepted as an expires that getExpiration (which judges the stored fact on every read) does not read is rewritten on its branch (fact[\"expires\"] = canonical seconds): otherwise the write is acknowledged and every later read of the fact fails with `bad 'expires'`", 2)
	set := w.Func("core", "setExpires")
	get := w.Func("core", "getExpiration")
	key := "fn=" + fname(set)
	ttlT := assertedTypes(set, lookupOfKey("ttl"))
	expT := assertedTypes(set, lookupOfKey("expires"))
	getT := assertedTypes(get, lookupOfKey("expires"))
	if len(ttlT) == 0 || len(expT) == 0 || len(getT) == 0 {
		r.exempt("EXP-TYPES-AGREE", key, w.Pos(set.Pos()), "no type switch over the ttl / expires entry found: shape not recognised, not decided")
		return
	}
	var missing []string
	for t := range ttlT {
		if goNumericTypes[t] && !expT[t] {
			missing = append(missing, t)
		}
	}
	sort.Strings(missing)
	if len(missing) > 0 {
		r.violation("EXP-TYPES-AGREE", key+" numbers", w.Pos(set.Pos()), "accepted as a ttl but refused as an expires: "+strings.Join(missing, ", "))
	} else {
		r.ok("EXP-TYPES-AGREE", key+" numbers", w.Pos(set.Pos()), "every number type accepted as a ttl is accepted as an expires")
	}
	// (2) per accepted type that the reader does not know: the branch rewrites the entry
	isExpUpdate := func(in ssa.Instruction) bool {
		mu, ok := in.(*ssa.MapUpdate)
		if !ok {
			return false
		}
		k, ok := constKey(mu.Key)
		return ok && k == "expires"
	}
	var unread []string
	allInstrs(set, func(in ssa.Instruction) {
		ta, ok := in.(*ssa.TypeAssert)
		if !ok || !ta.CommaOk || !dependsOn(ta.X, lookupOfKey("expires")) {
			return
		}
		t := types.TypeString(ta.AssertedType, nil)
		if getT[t] {
			return
		}
		for _, ref := range *ta.Referrers() {
			ex, ok := ref.(*ssa.Extract)
			if !ok || ex.Index != 1 {
				continue
			}
			for _, ref2 := range *ex.Referrers() {
				ifi, ok := ref2.(*ssa.If)
				if !ok {
					continue
				}
				tb := ifi.Block().Succs[0]
				if len(tb.Instrs) == 0 {
					continue
				}
				isOK := func(x ssa.Instruction) bool { _, isRet := x.(*ssa.Return); return isRet && isSuccessReturnPS(x) }
				if isExpUpdate(tb.Instrs[0]) {
					continue
				}
				if h, _ := reach(set, tb.Instrs[0], isOK, isExpUpdate, nil); h != nil {
					unread = append(unread, t)
				}
			}
		}
	})
	sort.Strings(unread)
	if len(unread) > 0 {
		r.violation("EXP-TYPES-AGREE", key+" readable", w.Pos(set.Pos()), "accepted as an expires and stored as it is, but getExpiration cannot read it: "+strings.Join(unread, ", "))
	} else {
		r.ok("EXP-TYPES-AGREE", key+" readable", w.Pos(set.Pos()), "every accepted encoding is one getExpiration reads, or is rewritten to one")
	}
}

// PREP-LOAD-TOLERANT (C13, C08): what is stored already is loaded as it is.
func rulePrepLoadTolerant(prop string) ruleFn {
	return func(w *World, r *Report) {
		r.Rule("PREP-LOAD-TOLERANT", "core.PrepareFact validates what is written, and IndexedState.Load runs it again over every stored record.  A refusal that PrepareFact makes up itself (an error created with fmt.Errorf / errors.New in PrepareFact: an id that starts with `?` or `!`, ...) is a rule about new writes; applied at load, one stored record that predates the rule makes the whole location unloadable — every request answers with that error.  Therefore every return of such an error is control-dependent on the `loading` flag of the location", 1)
		prep := w.Func("core", "PrepareFact")
		key := "fn=" + fname(prep)
		isLoading := func(v ssa.Value) bool {
			_, f, _, ok := loadedField(v)
			return ok && f == "loading"
		}
		isOwnErr := func(v ssa.Value) bool {
			c, ok := v.(*ssa.Call)
			if !ok {
				return false
			}
			f := c.Common().StaticCallee()
			if f == nil || f.Pkg == nil {
				return false
			}
			p := f.Pkg.Pkg.Path()
			return (p == "fmt" && f.Name() == "Errorf") || (p == "errors" && f.Name() == "New")
		}
		n := 0
		var bad ssa.Instruction
		// the error result is a named result: the refusals are the calls themselves (stored into the result slot)
		allInstrs(prep, func(in ssa.Instruction) {
			c, ok := in.(*ssa.Call)
			if !ok || !isOwnErr(c) {
				return
			}
			n++
			if !controlDependsOnClassic(prep, in, isLoading, nil) && bad == nil {
				bad = in
			}
		})
		switch {
		case n == 0:
			r.ok("PREP-LOAD-TOLERANT", key, w.Pos(prep.Pos()), "PrepareFact makes up no refusal of its own")
		case bad != nil:
			r.violation("PREP-LOAD-TOLERANT", key, w.PosOf(bad), "this refusal also applies while the location is being loaded: one stored record that predates it makes the location unloadable")
		default:
			r.ok("PREP-LOAD-TOLERANT", key, w.Pos(prep.Pos()), itoa(n)+" refusals of PrepareFact's own, none applied at load")
		}
	}
}

// numericCanon: fn (or a function it calls with a value derived from its parameter, two levels deep) has a type
// switch over its parameter with a case for every Go integer kind and float32.
func numericCanon(fn *ssa.Function, depth int) (bool, []string) {
	if fn == nil || len(fn.Blocks) == 0 || len(fn.Params) == 0 {
		return false, nil
	}
	var best []string
	for _, p := range fn.Params {
		have := assertedTypes(fn, func(v ssa.Value) bool { return v == ssa.Value(p) })
		if len(have) == 0 {
			continue
		}
		var missing []string
		for t := range goNumericTypes {
			if t != "float64" && !have[t] {
				missing = append(missing, t)
			}
		}
		sort.Strings(missing)
		if len(missing) == 0 {
			return true, nil
		}
		if best == nil || len(missing) < len(best) {
			best = missing
		}
	}
	if depth > 0 {
		ok := false
		allInstrs(fn, func(in ssa.Instruction) {
			if c := callOf(in); c != nil && c.StaticCallee() != nil && c.StaticCallee() != fn {
				if y, _ := numericCanon(c.StaticCallee(), depth-1); y {
					ok = true
				}
			}
		})
		if ok {
			return true, nil
		}
	}
	return false, best
}

// IDX-CANON (C01, C05): the rule index sees numbers the way the matcher sees them.
func ruleIdxCanon(prop string) ruleFn {
	return func(w *World, r *Report) {
		r.Rule("IDX-CANON", "the matcher compares numbers as float64 (CAST-NUMBERS), and the rule index files a number under a key made from its float64 rendering; its sorter orders only float64, int, string and bool.  A `when` or an event made by a Go caller or a script holds other integer kinds (otto exports an integral value as int64): `{\"n\":[1,2]}` with int64 members is `not sortable` — the rule is refused, or every event that holds such an array fails for all rules.  Therefore every exported method of PatternIndex that takes a map hands mapToPairs a value that went through a function with a case for every Go integer kind (a canonicaliser), as CastMatcher does for the matcher", 3)
		mtp := w.Func("core", "mapToPairs")
		n := 0
		for _, fn := range w.Funcs {
			if w.RelPkg(fn) != "core" || isTestFile(w, fn) || fn.Signature.Recv() == nil || fn.Object() == nil || !fn.Object().Exported() {
				continue
			}
			if nt := namedOf(fn.Signature.Recv().Type()); nt == nil || nt.Obj().Name() != "PatternIndex" {
				continue
			}
			allInstrs(fn, func(in ssa.Instruction) {
				c := callOf(in)
				if c == nil || c.StaticCallee() != mtp || len(c.Args) < 2 {
					return
				}
				n++
				key := "fn=" + fname(fn)
				why := ""
				canon := dependsOn(c.Args[1], func(v ssa.Value) bool {
					cc, ok := v.(*ssa.Call)
					if !ok || cc.Common().StaticCallee() == nil {
						return false
					}
					y, missing := numericCanon(cc.Common().StaticCallee(), 2)
					if !y && missing != nil {
						why = fname(cc.Common().StaticCallee()) + " has no case for " + strings.Join(missing, ", ")
					}
					return y
				})
				if canon {
					r.ok("IDX-CANON", key, w.PosOf(in), "the map is canonicalised before it is taken apart")
				} else {
					if why == "" {
						why = "the caller's map is taken apart as it is"
					}
					r.violation("IDX-CANON", key, w.PosOf(in), why+": an int64 (what a script's number is) inside an array makes the pattern or the event `not sortable`")
				}
			})
		}
		if n == 0 {
			r.exempt("IDX-CANON", "type=core.PatternIndex", "", "no exported method of PatternIndex calls mapToPairs: shape not recognised, not decided")
		}
	}
}

// PRIV-LOCAL (C12, C13): the lock-skipping privilege is never put on a context that somebody else can see.
func rulePrivLocal(prop string) ruleFn {
	return func(w *World, r *Report) {
		r.Rule("PRIV-LOCAL", "while a state runs a hook it holds its lock, and marks a Context as privileged so that the hook's own calls into the state skip that lock (slock / sunlock test the mark).  A Context is shared between goroutines: the actions of a rule run concurrently with the event's context, the ticks of all scheduled rules that one request loaded run with that request's context.  Marked, such a context makes the *other* goroutines skip the lock that is held, and, when the mark is gone by the time they are done, unlock it (`fatal error: sync: Unlock of unlocked RWMutex`) — or take it and never give it back.  Therefore every call of Context.grantPrivilege has as its receiver a context made for the purpose in the same function (the result of SubContext), and SubContext does not hand the mark on", 1)
		grant := w.Method("core", "Context", "grantPrivilege")
		sub := w.Method("core", "Context", "SubContext")
		n := 0
		for _, fn := range w.Funcs {
			if !w.IsRulio(fn) || isTestFile(w, fn) {
				continue
			}
			allInstrs(fn, func(in ssa.Instruction) {
				c := callOf(in)
				if c == nil || c.StaticCallee() != grant || len(c.Args) == 0 {
					return
				}
				n++
				key := "fn=" + fname(fn)
				if cc, ok := resolveSpill(c.Args[0]).(*ssa.Call); ok && cc.Common().StaticCallee() == sub {
					r.ok("PRIV-LOCAL", key, w.PosOf(in), "the privilege goes to a context made here for the hook")
				} else {
					r.violation("PRIV-LOCAL", key, w.PosOf(in), "the privilege is granted on a context that the caller handed in: every goroutine that shares it (sibling actions, ticks) skips the state lock meanwhile, and unlocks a lock it never took")
				}
			})
		}
		// SubContext itself: no store into the new context's privilege field
		leak := false
		allInstrs(sub, func(in ssa.Instruction) {
			if st, ok := in.(*ssa.Store); ok {
				if _, f, _, ok := fieldOf(st.Addr); ok && f == "privilege" {
					leak = true
				}
			}
		})
		if leak {
			r.violation("PRIV-LOCAL", "fn="+fname(sub), w.Pos(sub.Pos()), "SubContext copies the privilege: a context made for another goroutine (a tick, a concurrently run action) while a hook runs skips the state lock for its whole life")
		} else {
			r.ok("PRIV-LOCAL", "fn="+fname(sub), w.Pos(sub.Pos()), "a sub-context starts without the privilege")
		}
		if n == 0 {
			r.exempt("PRIV-LOCAL", "fn="+fname(grant), "", "grantPrivilege is never called: not decided")
		}
	}
}

// ctxMutators: the functions from which Context.SetLoc or Context.grantPrivilege is reachable.
func ctxMutators(w *World) map[*ssa.Function]bool {
	out := map[*ssa.Function]bool{}
	var work []*ssa.Function
	for _, name := range []string{"SetLoc", "grantPrivilege"} {
		if f := w.TryMethod("core", "Context", name); f != nil {
			out[f] = true
			work = append(work, f)
		}
	}
	for len(work) > 0 {
		f := work[len(work)-1]
		work = work[:len(work)-1]
		for _, e := range w.Callers(f) {
			cf := e.Caller.Func
			if cf == nil || out[cf] || !w.IsRulio(cf) || isTestFile(w, cf) {
				continue
			}
			out[cf] = true
			work = append(work, cf)
		}
	}
	return out
}

// CTX-PER-GOROUTINE (C09, C04, C11, C12, C15): what runs concurrently has a context of its own.
func ruleCtxPerGoroutine(prop string) ruleFn {
	return func(w *World, r *Report) {
		r.Rule("CTX-PER-GOROUTINE", "processing an event, running an action, searching with `inherited` point the Context they are given at locations (Context.SetLoc: the location whose script runs, each ancestor during its part of a walk), and what runs next reads `the context's location` (the script environment's Env.AddFact, the cron hooks' job keys).  Two goroutines doing that with one Context redirect each other: an action of a child's rule writes its facts into the parent.  Therefore a function literal that is started with `go` in the event engine (core/events.go), or handed to the in-memory cron as a job, passes a captured *Context to nothing that can reach SetLoc — it works with a context of its own (SubContext)", 2)
		mut := ctxMutators(w)
		cronAdd := w.TryMethod("cron", "Cron", "Add")
		ctxT := w.Named("core", "Context")
		isCtxPtr := func(t types.Type) bool {
			p, ok := t.(*types.Pointer)
			if !ok {
				return false
			}
			n, ok := p.Elem().(*types.Named)
			return ok && n.Obj() == ctxT.Obj()
		}
		// a captured context: a FreeVar of type *Context, or the load of a FreeVar of type **Context
		captured := func(v ssa.Value) bool {
			v = resolveSpill(v)
			if fv, ok := v.(*ssa.FreeVar); ok && isCtxPtr(fv.Type()) {
				return true
			}
			if u, ok := v.(*ssa.UnOp); ok && u.Op == token.MUL {
				if fv, ok := u.X.(*ssa.FreeVar); ok {
					if p, ok := fv.Type().(*types.Pointer); ok && isCtxPtr(p.Elem()) {
						return true
					}
				}
			}
			return false
		}
		var closures []*ssa.Function
		why := map[*ssa.Function]string{}
		for _, fn := range w.Funcs {
			if !w.IsRulio(fn) || isTestFile(w, fn) {
				continue
			}
			rel := w.RelPkg(fn)
			allInstrs(fn, func(in ssa.Instruction) {
				switch x := in.(type) {
				case *ssa.Go:
					if rel != "core" || !strings.HasSuffix(w.Prog.Fset.Position(fn.Pos()).Filename, "events.go") {
						return
					}
					if mc, ok := x.Call.Value.(*ssa.MakeClosure); ok {
						if f, ok := mc.Fn.(*ssa.Function); ok {
							closures = append(closures, f)
							why[f] = "started with `go` in " + fname(fn)
						}
					}
				case *ssa.Call:
					if cronAdd == nil || x.Common().StaticCallee() != cronAdd {
						return
					}
					for _, a := range x.Common().Args {
						if mc, ok := resolveSpill(a).(*ssa.MakeClosure); ok {
							if f, ok := mc.Fn.(*ssa.Function); ok {
								closures = append(closures, f)
								why[f] = "a cron job made in " + fname(fn)
							}
						}
					}
				}
			})
		}
		for _, cl := range closures {
			key := "closure=" + fname(cl)
			var bad ssa.Instruction
			badCallee := ""
			allInstrs(cl, func(in ssa.Instruction) {
				c := callOf(in)
				if c == nil || bad != nil {
					return
				}
				for i, a := range c.Args {
					if !captured(a) {
						continue
					}
					for _, callee := range w.Callees(in.(ssa.CallInstruction)) {
						if !mut[callee] {
							continue
						}
						// a method of Context on the captured context itself: only the two mutators count
						if i == 0 && callee.Signature.Recv() != nil && isCtxPtr(callee.Signature.Recv().Type()) && callee.Name() != "SetLoc" && callee.Name() != "grantPrivilege" {
							continue
						}
						bad, badCallee = in, fname(callee)
					}
				}
			})
			if bad != nil {
				r.violation("CTX-PER-GOROUTINE", key, w.PosOf(bad), why[cl]+": it hands the context it shares with its siblings to "+badCallee+", which can re-point it (Context.SetLoc)")
			} else {
				r.ok("CTX-PER-GOROUTINE", key, w.Pos(cl.Pos()), why[cl]+": the shared context goes to nothing that re-points it")
			}
		}
		if len(closures) == 0 {
			r.exempt("CTX-PER-GOROUTINE", "file=core/events.go", "", "no goroutine / cron job literal found: shape not recognised, not decided")
		}
	}
}

// CACHE-GEN (C12, C01, C10): the parsed-rule cache is invalidated where the facts change.
func ruleCacheGen(prop string) ruleFn {
	return func(w *World, r *Report) {
		r.Rule("CACHE-GEN", "premise: the states keep a count of the invalidations of the parsed-rule cache (`cacheGen`), which FindCachedRules notes before it reads the rules out of the state and compares before it caches what it parsed (checked: the store into the cache is control-dependent on a comparison with the count).  That protocol keeps an event that overlaps the replacement of a rule from caching the replaced rule for good — provided the count changes with the state's write lock held, in the critical section in which the fact changes: an invalidation before that section (LinearState.Add once dropped the entry first and replaced the fact last) can be over before the event notes the count, and the event then reads the old rule and caches it", 2)
		n := 0
		for _, name := range []string{"IndexedState", "LinearState"} {
			nt := w.Named("core", name)
			owner := "core." + name
			has := false
			if st := structOf(nt); st != nil {
				for k := 0; k < st.NumFields(); k++ {
					if st.Field(k).Name() == "cacheGen" {
						has = true
					}
				}
			}
			key := "type=" + owner
			if !has {
				r.exempt("CACHE-GEN", key, "", "premise fails: no invalidation count; the cache is then guarded by the state's lock (LOCKSET) or not at all")
				continue
			}
			n++
			// (1) the publication hangs on the count
			pubOK := false
			for _, fn := range w.MethodsOf(nt) {
				allInstrs(fn, func(in ssa.Instruction) {
					mu, ok := in.(*ssa.MapUpdate)
					if !ok || !isFieldLoad(mu.Map, owner, "cachedRules") {
						return
					}
					if controlDependsOn(fn, in, func(v ssa.Value) bool {
						if isFieldLoad(v, owner, "cacheGen") {
							return true
						}
						if c, ok := v.(*ssa.Call); ok && c.Common().StaticCallee() != nil && c.Common().StaticCallee().Pkg != nil && c.Common().StaticCallee().Pkg.Pkg.Path() == "sync/atomic" && len(c.Common().Args) > 0 {
							_, f, _, okf := fieldOf(c.Common().Args[0])
							return okf && f == "cacheGen"
						}
						return false
					}) {
						pubOK = true
					} else {
						pubOK = false
						r.violation("CACHE-GEN", key+" publish", w.PosOf(in), "a parsed rule is put into the cache without a look at the invalidation count")
					}
				})
			}
			if pubOK {
				r.ok("CACHE-GEN", key+" publish", "", "a parsed rule is cached only if nothing was invalidated since the event noted the count")
			}
			// (1a) the count that the publication is compared with was noted BEFORE the rules were read out of the state
			// (seed C12-15: noted on a cache miss, after the read — an AddRule that fits between the read and the miss
			// has bumped the count already, the comparison succeeds and the replaced rule is cached for good).
			// Shape: state read c, then note n, then publication p with no state read between n and p.
			cacheGenNoted(w, r, nt, owner, key)
			// (1b) comparing the count and putting the rule in are one step with respect to an invalidation: both sides
			// hold the cache's own mutex (a lock-free map with an atomic count is not enough: between the comparison
			// and the store an invalidation fits, and the replaced rule is cached for good)
			{
				e := newLocksetEngine(w, nil)
				cl := owner + ".cacheLock"
				held := func(g *ssa.Function, at ssa.Instruction) bool {
					ok := false
					allInstrs(g, func(x ssa.Instruction) {
						if e.acquires(x, cl) && reachable(g, x, at) && between(g, x, at, func(y ssa.Instruction) bool { return e.releases(y, cl) }) == nil {
							ok = true
						}
					})
					return ok
				}
				isGenWrite := func(x ssa.Instruction) bool {
					if _, ok := storesToField(x, owner, "cacheGen"); ok {
						return true
					}
					if c := callOf(x); c != nil && c.StaticCallee() != nil && c.StaticCallee().Pkg != nil && c.StaticCallee().Pkg.Pkg.Path() == "sync/atomic" && strings.HasPrefix(c.StaticCallee().Name(), "Add") && len(c.Args) > 0 {
						_, f, _, ok := fieldOf(c.Args[0])
						return ok && f == "cacheGen"
					}
					return false
				}
				isPublish := func(x ssa.Instruction) bool {
					if mu, ok := x.(*ssa.MapUpdate); ok && isFieldLoad(mu.Map, owner, "cachedRules") {
						return true
					}
					if c := callOf(x); c != nil && c.StaticCallee() != nil && c.StaticCallee().Signature.Recv() != nil && len(c.Args) > 0 {
						switch c.StaticCallee().Name() {
						case "Store", "LoadOrStore", "Add", "Set", "Put":
							_, f, _, ok := fieldOf(c.Args[0])
							return ok && f == "cachedRules"
						}
					}
					return false
				}
				nP, nW, loose := 0, 0, ""
				for _, g := range w.MethodsOf(nt) {
					if isTestFile(w, g) {
						continue
					}
					allInstrs(g, func(x ssa.Instruction) {
						switch {
						case isPublish(x):
							nP++
							if !held(g, x) {
								loose = "the rule is put into the cache at " + w.PosOf(x) + " without the cache's mutex"
							}
						case isGenWrite(x):
							nW++
							if !held(g, x) {
								loose = "the invalidation count changes at " + w.PosOf(x) + " without the cache's mutex"
							}
						}
					})
				}
				switch {
				case nP == 0 || nW == 0:
					r.exempt("CACHE-GEN", key+" atomic", "", "no publication / no change of the count found in the state's methods: shape not recognised, not decided")
				case loose != "":
					r.violation("CACHE-GEN", key+" atomic", "", loose+": the comparison of the count and the publication are not one step with respect to an invalidation, so an event that overlaps the replacement of a rule can cache the replaced rule for good")
				default:
					r.ok("CACHE-GEN", key+" atomic", "", "publication and invalidation exclude each other (both under the cache's mutex)")
				}
			}
			// (2) where a fact is set (inserted or replaced), the invalidation is in the same critical section: no
			// operation on the state's lock lies between the two.  (LOCKSET decides that the set itself is made with
			// the write lock held.  Removals need nothing: an entry for an id that has no fact is never looked at.)
			factField := "IdToFact"
			if name == "LinearState" {
				factField = "Facts"
			}
			e := newLocksetEngine(w, nil)
			lock := owner + ".RWMutex"
			isLockOp := func(x ssa.Instruction) bool { return e.acquires(x, lock) || e.releases(x, lock) }
			invalidates := func(g *ssa.Function) bool {
				found := false
				if g == nil {
					return false
				}
				allInstrs(g, func(in ssa.Instruction) {
					if _, ok := storesToField(in, owner, "cacheGen"); ok {
						found = true
					}
					// an atomic counter: atomic.AddUint64(&s.cacheGen, 1)
					if c := callOf(in); c != nil && c.StaticCallee() != nil && c.StaticCallee().Pkg != nil && c.StaticCallee().Pkg.Pkg.Path() == "sync/atomic" && strings.HasPrefix(c.StaticCallee().Name(), "Add") && len(c.Args) > 0 {
						if _, f, _, ok := fieldOf(c.Args[0]); ok && f == "cacheGen" {
							found = true
						}
					}
				})
				return found
			}
			sets := 0
			// a function that sets a fact and does not invalidate itself is a helper (`put`): the obligation is its
			// callers', with the id they hand it
			setsFact := func(g *ssa.Function) (*ssa.MapUpdate, bool) {
				var mu *ssa.MapUpdate
				allInstrs(g, func(in ssa.Instruction) {
					if m, ok := in.(*ssa.MapUpdate); ok && isFieldLoad(m.Map, owner, factField) {
						mu = m
					}
				})
				return mu, mu != nil
			}
			selfInvalidates := func(g *ssa.Function) bool {
				yes := false
				allInstrs(g, func(x ssa.Instruction) {
					if c := callOf(x); c != nil && invalidates(c.StaticCallee()) {
						yes = true
					}
				})
				return yes || invalidates(g)
			}
			type site struct {
				fn  *ssa.Function
				in  ssa.Instruction
				key ssa.Value
			}
			var sites []site
			for _, fn := range w.MethodsOf(nt) {
				if fn.Name() == "Load" || isTestFile(w, fn) {
					continue
				}
				if mu, ok := setsFact(fn); ok && !selfInvalidates(fn) {
					// a helper: its call sites (outside Load)
					keyIdx := -1
					for i, p := range fn.Params {
						if resolveSpill(mu.Key) == ssa.Value(p) {
							keyIdx = i
						}
					}
					for _, e := range w.Callers(fn) {
						cf := e.Caller.Func
						if cf == nil || cf.Name() == "Load" || isTestFile(w, cf) {
							continue
						}
						var k ssa.Value
						if keyIdx >= 0 && keyIdx < len(e.Site.Common().Args) {
							k = e.Site.Common().Args[keyIdx]
						}
						sites = append(sites, site{cf, e.Site, k})
					}
					continue
				}
				allInstrs(fn, func(in ssa.Instruction) {
					if mu, ok := in.(*ssa.MapUpdate); ok && isFieldLoad(mu.Map, owner, factField) {
						sites = append(sites, site{fn, in, mu.Key})
					}
				})
			}
			for _, st := range sites {
				fn, in := st.fn, st.in
				{
					sets++
					k2 := key + " set in=" + fname(fn)
					same := false
					allInstrs(fn, func(x ssa.Instruction) {
						c := callOf(x)
						if c == nil || !invalidates(c.StaticCallee()) {
							return
						}
						// under the id the fact is stored under (not the one the caller gave: a property's is made
						// from the fact)
						if len(c.Args) >= 2 && st.key != nil && resolveSpill(c.Args[1]) != resolveSpill(st.key) {
							return
						}
						if reachable(fn, in, x) && between(fn, in, x, isLockOp) == nil {
							same = true
						}
						if reachable(fn, x, in) && between(fn, x, in, isLockOp) == nil {
							same = true
						}
					})
					if same {
						r.ok("CACHE-GEN", k2, w.PosOf(in), "the cache is invalidated in the critical section in which the fact is set")
					} else {
						r.violation("CACHE-GEN", k2, w.PosOf(in), "the fact is set here, and the parsed-rule cache is not invalidated in the same critical section: an event can note the invalidation count after the invalidation, still read the old rule, and cache it for good")
					}
				}
			}
			if sets == 0 {
				r.exempt("CACHE-GEN", key+" set", "", "no method sets an entry of the fact map: shape not recognised, not decided")
			}
		}
		if n == 0 {
			r.Notes = append(r.Notes, "CACHE-GEN: no state keeps an invalidation count")
		}
	}
}

// MARSHAL-PURE (C12, C04): rendering a value does not change it.
func ruleMarshalPure(prop string) ruleFn {
	return func(w *World, r *Report) {
		r.Rule("MARSHAL-PURE", "encoding/json calls a value's MarshalJSON by reflection, wherever that value sits in what is rendered — the work of an event carries the cached rule that every event which finds it shares (SHARED-WRITE follows static calls only and does not see this one).  No MarshalJSON / MarshalYAML / String method of rulio with a pointer receiver writes through its receiver", 1)
		m := newModEngine(w, func(f *ssa.Function) bool { return w.IsRulio(f) })
		n := 0
		for _, fn := range w.Funcs {
			if !w.IsRulio(fn) || isTestFile(w, fn) || fn.Signature.Recv() == nil {
				continue
			}
			switch fn.Name() {
			case "MarshalJSON", "MarshalYAML", "String":
			default:
				continue
			}
			if _, ptr := fn.Signature.Recv().Type().(*types.Pointer); !ptr {
				continue
			}
			n++
			key := "fn=" + fname(fn)
			if mut, where := m.mutatesParam(fn, 0); mut {
				r.violation("MARSHAL-PURE", key, w.Pos(fn.Pos()), "this renderer writes through its receiver ("+where+"): rendering the work of an event writes into the cached rule that concurrent events share")
			} else {
				r.ok("MARSHAL-PURE", key, w.Pos(fn.Pos()), "renders without writing through its receiver")
			}
		}
		if n == 0 {
			r.exempt("MARSHAL-PURE", "pkg=core", "", "no renderer with a pointer receiver found: not decided")
		}
	}
}

// RAND-GUARD (C13, C04): no random pick from nothing.
func ruleRandGuard(prop string) ruleFn {
	return func(w *World, r *Report) {
		r.Rule("RAND-GUARD", "math/rand.Intn(n) panics for n <= 0.  Where n is the length of something that configuration or a request supplies (the URL list of a service in a location's Control), the call is control-dependent on a test of that length: the panic would not be in the script engine, where panics are caught, but in the Go function the script called — with concurrent actions it takes the process down", 1)
		n := 0
		for _, fn := range w.Funcs {
			if !w.IsRulio(fn) || isTestFile(w, fn) {
				continue
			}
			if p := w.RelPkg(fn); p != "core" && p != "sys" && p != "service" && p != "cron" {
				continue
			}
			if strings.HasSuffix(w.Prog.Fset.Position(fn.Pos()).Filename, "factgen.go") {
				continue // the generator of test data: its arguments are constants plus one
			}
			allInstrs(fn, func(in ssa.Instruction) {
				c := callOf(in)
				if c == nil || c.StaticCallee() == nil || c.StaticCallee().Pkg == nil || c.StaticCallee().Pkg.Pkg.Path() != "math/rand" {
					return
				}
				switch c.StaticCallee().Name() {
				case "Intn", "Int63n", "Int31n":
				default:
					return
				}
				if len(c.Args) != 1 {
					return
				}
				if _, isConst := c.Args[0].(*ssa.Const); isConst {
					return
				}
				n++
				key := "fn=" + fname(fn)
				// the thing whose length it is
				var of ssa.Value
				dependsOn(c.Args[0], func(v ssa.Value) bool {
					if cc, ok := v.(*ssa.Call); ok {
						if b, ok := cc.Common().Value.(*ssa.Builtin); ok && b.Name() == "len" && len(cc.Common().Args) == 1 {
							of = cc.Common().Args[0]
							return true
						}
					}
					return false
				})
				guarded := controlDependsOn(fn, in, func(v ssa.Value) bool {
					b, ok := v.(*ssa.BinOp)
					if !ok {
						return false
					}
					switch b.Op {
					case token.LSS, token.LEQ, token.GTR, token.GEQ, token.EQL, token.NEQ:
					default:
						return false
					}
					isLen := func(x ssa.Value) bool {
						return dependsOn(x, func(y ssa.Value) bool {
							if cc, ok := y.(*ssa.Call); ok {
								if bb, ok := cc.Common().Value.(*ssa.Builtin); ok && bb.Name() == "len" && len(cc.Common().Args) == 1 {
									return of == nil || cc.Common().Args[0] == of
								}
							}
							return y == c.Args[0]
						})
					}
					return isLen(b.X) || isLen(b.Y)
				})
				if guarded {
					r.ok("RAND-GUARD", key, w.PosOf(in), "the pick is made behind a test of the length")
				} else {
					r.violation("RAND-GUARD", key, w.PosOf(in), "a random pick from a list that can be empty: rand.Intn(0) panics (a service with an empty URL list in the location's Control)")
				}
			})
		}
		if n == 0 {
			r.ok("RAND-GUARD", "pkg=core", "", "no random pick over a run-time length")
		}
	}
}

// CODE-RESULT-MAP (C03): what a script gives back as bindings is taken as bindings.
func ruleCodeResultMap(w *World, r *Report) {
	r.Rule("CODE-RESULT-MAP", "CodeQuery.Exec merges an object that the script returns into the bindings (`case map[string]interface{}`).  A script that returns one of its own bindings gives back what it was given: the event arrives as a core.Map and comes back as one.  The result is therefore also tested for core.Map (a case, or a conversion in front of the switch); otherwise `{\"code\":\"event\"}` keeps the incoming bindings and merges nothing, where the same object built in the script merges", 1)
	fn := w.Method("core", "CodeQuery", "Exec")
	key := "fn=" + fname(fn)
	run := w.Func("core", "RunJavascript")
	have := assertedTypes(fn, func(v ssa.Value) bool {
		c, ok := v.(*ssa.Call)
		return ok && c.Common().StaticCallee() == run
	})
	generic := have["map[string]interface{}"]
	mapT := false
	for t := range have {
		if strings.HasSuffix(t, "/core.Map") || t == "core.Map" {
			mapT = true
		}
	}
	switch {
	case !generic:
		r.exempt("CODE-RESULT-MAP", key, w.Pos(fn.Pos()), "the result of the script is not tested for map[string]interface{}: shape not recognised, not decided")
	case mapT:
		r.ok("CODE-RESULT-MAP", key, w.Pos(fn.Pos()), "both map types are merged")
	default:
		r.violation("CODE-RESULT-MAP", key, w.Pos(fn.Pos()), "a core.Map that the script returns (the event it was given, say) is not merged into the bindings")
	}
}

// CRON-KEY-INJ (C09, C11, C15): two jobs of two locations never share a key.
func ruleCronKeyInj(prop string) ruleFn {
	return func(w *World, r *Report) {
		r.Rule("CRON-KEY-INJ", "CRON-KEY requires the key of a job in the shared in-memory cron to depend on the location and on the rule id.  It must also be *unique* for the pair: a key that only joins the two with a separator is the same for (\"a\", \"b\\x00c\") and (\"a\\x00b\", \"c\") — nothing keeps the separator out of location names or rule ids — and one location's rule replaces, or unschedules, the other's.  Therefore the key that cron.jobKey builds also depends on the length of one of the two parts (a length prefix), or on an escaping / quoting call applied to a part", 1)
		fn := w.TryFunc("cron", "jobKey")
		if fn == nil {
			r.exempt("CRON-KEY-INJ", "fn=cron.jobKey", "", "cron.jobKey not found: shape not recognised, not decided")
			return
		}
		key := "fn=" + fname(fn)
		ok := false
		n := 0
		allInstrs(fn, func(in ssa.Instruction) {
			ret, isRet := in.(*ssa.Return)
			if !isRet || len(ret.Results) != 1 {
				return
			}
			// the return that joins two parts (a string concatenation)
			concat := dependsOn(ret.Results[0], func(v ssa.Value) bool {
				b, isB := v.(*ssa.BinOp)
				return isB && b.Op == token.ADD
			})
			if !concat {
				return
			}
			n++
			if dependsOn(ret.Results[0], func(v ssa.Value) bool {
				c, isC := v.(*ssa.Call)
				if !isC {
					return false
				}
				if b, isB := c.Common().Value.(*ssa.Builtin); isB && b.Name() == "len" {
					return true
				}
				if f := c.Common().StaticCallee(); f != nil {
					switch f.Name() {
					case "Quote", "QueryEscape", "PathEscape", "Sprintf", "Marshal":
						return f.Name() != "Sprintf" || dependsOn(c, func(x ssa.Value) bool {
							k, isK := x.(*ssa.Const)
							return isK && k.Value != nil && k.Value.Kind() == constant.String && (strings.Contains(constant.StringVal(k.Value), "%q") || strings.Contains(constant.StringVal(k.Value), "%d"))
						})
					}
				}
				return false
			}) {
				ok = true
			}
		})
		switch {
		case n == 0:
			r.exempt("CRON-KEY-INJ", key, w.Pos(fn.Pos()), "jobKey does not concatenate: shape not recognised, not decided")
		case ok:
			r.ok("CRON-KEY-INJ", key, w.Pos(fn.Pos()), "the key carries a length (or an escaped part): no two pairs share it")
		default:
			r.violation("CRON-KEY-INJ", key, w.Pos(fn.Pos()), "the key joins location and rule id with a separator only: (\"a\", \"b\\x00c\") and (\"a\\x00b\", \"c\") are one job")
		}
	}
}

// CROLT-TID-OWN (C16): the time-index entry that an update deletes is crolt's own bookkeeping.
func ruleCroltTidOwn(w *World, r *Report) {
	r.Rule("CROLT-TID-OWN", "crolt's update deletes the time-index entry that the job's TId field names before it writes the new one.  TId is a field of the job as it is decoded from a request (`json:\"tid\"`); a job created from a copy of what /get gave for another job names that other job's entry, and creating it silently takes the other job out of the time index: it stays in the job table and never fires again.  Therefore Cron.Add — the entry point for a *new* job — clears TId before anything that reaches update", 1)
	fn := w.TryMethod("crolt", "Cron", "Add")
	if fn == nil {
		r.exempt("CROLT-TID-OWN", "fn=(*crolt.Cron).Add", "", "not found: not decided")
		return
	}
	upd := w.TryMethod("crolt", "Cron", "update")
	key := "fn=" + fname(fn)
	var clear ssa.Instruction
	allInstrs(fn, func(in ssa.Instruction) {
		st, ok := in.(*ssa.Store)
		if !ok {
			return
		}
		if _, f, _, okf := fieldOf(st.Addr); okf && f == "TId" {
			if k, isK := st.Val.(*ssa.Const); isK && k.Value != nil && k.Value.Kind() == constant.String && constant.StringVal(k.Value) == "" {
				clear = in
			}
		}
	})
	var calls []ssa.Instruction
	allInstrs(fn, func(in ssa.Instruction) {
		if c := callOf(in); c != nil && upd != nil && c.StaticCallee() == upd {
			calls = append(calls, in)
		}
	})
	// the service's other bookkeeping in the job record — `evict` (set by the work loop for a job that is done: `set`
	// files such a job for eviction and `work` then evicts it without a request) and `work` (the outcome of the last
	// request) — is not the requester's to give either: what /get returns for a one-shot job that has fired carries
	// both, and a job posted from it was accepted and never fired
	setFn := w.TryMethod("crolt", "Cron", "set")
	for _, bk := range []struct{ field, zero string }{{"Evict", "false"}, {"Work", "nil"}} {
		var clr ssa.Instruction
		allInstrs(fn, func(in ssa.Instruction) {
			st, ok := in.(*ssa.Store)
			if !ok {
				return
			}
			if _, f, _, okf := fieldOf(st.Addr); okf && f == bk.field {
				if k, isK := st.Val.(*ssa.Const); isK && (k.Value == nil || (k.Value.Kind() == constant.Bool && !constant.BoolVal(k.Value))) {
					clr = in
				}
			}
		})
		k2 := key + " field=" + bk.field
		var first []ssa.Instruction
		allInstrs(fn, func(in ssa.Instruction) {
			if c := callOf(in); c != nil && c.StaticCallee() != nil && (c.StaticCallee() == upd || (setFn != nil && c.StaticCallee() == setFn)) {
				first = append(first, in)
			}
		})
		if len(first) == 0 {
			continue
		}
		okAll := clr != nil
		for _, c := range first {
			if clr == nil || !instrDominates(clr, c) {
				okAll = false
			}
		}
		if okAll {
			r.ok("CROLT-TID-OWN", k2, w.PosOf(clr), "a new job starts without the service's `"+strings.ToLower(bk.field)+"` bookkeeping")
		} else {
			r.violation("CROLT-TID-OWN", k2, w.PosOf(first[0]), "Add hands the job's `"+strings.ToLower(bk.field)+"` on as the request gave it: a job posted from what /get gave for a one-shot job that has fired is accepted, filed for eviction and never fires")
		}
	}
	switch {
	case len(calls) == 0:
		r.exempt("CROLT-TID-OWN", key, w.Pos(fn.Pos()), "Add does not call update: shape not recognised, not decided")
	case clear == nil:
		r.violation("CROLT-TID-OWN", key, w.PosOf(calls[0]), "Add hands the job's TId on as the request gave it: update deletes the time-index entry it names, which can be another job's")
	default:
		for _, c := range calls {
			if !instrDominates(clear, c) {
				r.violation("CROLT-TID-OWN", key, w.PosOf(c), "TId is not cleared on every path to update")
				return
			}
		}
		r.ok("CROLT-TID-OWN", key, w.PosOf(clear), "a new job starts without a time-index entry")
	}
}

// passesSource: every return of fn accepted by countRet lies behind a call for which isSource holds, or behind a call
// of a rulio function of which that is true (two levels).
func passesSource(w *World, fn *ssa.Function, isSource func(*ssa.CallCommon) bool, countRet func(ssa.Instruction) bool, depth int) (bool, ssa.Instruction) {
	if fn == nil || len(fn.Blocks) == 0 {
		return false, nil
	}
	isB := func(in ssa.Instruction) bool {
		c := callOf(in)
		if c == nil {
			return false
		}
		if isSource(c) {
			return true
		}
		if depth > 0 {
			if f := c.StaticCallee(); f != nil && f != fn && w.IsRulio(f) {
				if ok, _ := passesSource(w, f, isSource, countRet, depth-1); ok {
					return true
				}
			}
		}
		return false
	}
	isRet := func(in ssa.Instruction) bool {
		_, ok := in.(*ssa.Return)
		return ok && (countRet == nil || countRet(in))
	}
	if h, _ := reach(fn, nil, isRet, isB, nil); h != nil {
		return false, h
	}
	return true, nil
}

// STATE-FRESH (C01, C09, C10, C19): what a location says about itself is what its state says now.
func ruleStateFresh(prop string) ruleFn {
	return func(w *World, r *Report) {
		r.Rule("STATE-FRESH", "a location's parents, its keys, its `enabled` switch and the `disabled` flag of a rule are facts (properties) in its state, and every writer of facts can change them: SetParents and SetProp, but also the plain fact API (AddFact(\"\", {\"!parents\": [...]}), RemFact(\"!.readKey\")), a rule's action, a ttl that runs out, a reload.  The functions that answer those questions therefore ask the state on every call: every return of Location.getParents / Enabled / RuleEnabled, and every `allowed` return of CheckRead / CheckWrite, lies behind a property lookup (GetProp / GetPropString / State.Get) made in that call.  An answer remembered in the Location object (a parsed parent list, a `no key` flag) is invalidated only by the writers that know about it — the others go on being dispatched to former ancestors, or past a key that was just installed", 4)
		isLookup := func(c *ssa.CallCommon) bool {
			if f := c.StaticCallee(); f != nil && f.Pkg != nil && w.RelPkg(f) == "core" {
				switch f.Name() {
				case "GetProp", "GetPropString":
					return true
				}
			}
			if c.IsInvoke() && c.Method.Name() == "Get" {
				if n := namedOf(c.Value.Type()); n != nil && n.Obj().Name() == "State" {
					return true
				}
			}
			return false
		}
		type row struct {
			name   string
			okOnly bool
			asks   string
		}
		for _, rw := range []row{
			{"getParents", false, "the `parents` property"},
			{"Enabled", false, "the `enabled` property"},
			{"RuleEnabled", true, "the rule's `disabled` property"},
			{"CheckRead", true, "the read key"},
			{"CheckWrite", true, "the write key"},
		} {
			fn := w.TryMethod("core", "Location", rw.name)
			key := "fn=(*core.Location)." + rw.name
			if fn == nil {
				r.exempt("STATE-FRESH", key, "", "method not found: not decided")
				continue
			}
			var count func(ssa.Instruction) bool
			if rw.okOnly {
				count = isSuccessReturnPS
			}
			if ok, at := passesSource(w, fn, isLookup, count, 2); ok {
				r.ok("STATE-FRESH", key, w.Pos(fn.Pos()), "asks the state for "+rw.asks+" on every call")
			} else {
				r.violation("STATE-FRESH", key, w.PosOf(at), "answers without asking the state for "+rw.asks+": a value remembered from an earlier call survives every writer that does not know about the memory (the plain fact API, actions, expiry, reload)")
			}
		}
		// the ancestor walk: each parent is resolved through the provider in this walk
		da := w.TryMethod("core", "Location", "doAncestors")
		if da == nil {
			return
		}
		key := "fn=" + fname(da)
		isProvider := func(c *ssa.CallCommon) bool {
			return c.IsInvoke() && c.Method.Name() == "GetLocation"
		}
		n := 0
		var bad ssa.Instruction
		allInstrs(da, func(in ssa.Instruction) {
			c := callOf(in)
			if c == nil || c.StaticCallee() != da || len(c.Args) == 0 {
				return
			}
			n++
			fresh := dependsOn(c.Args[0], func(v ssa.Value) bool {
				cc, ok := v.(*ssa.Call)
				if !ok {
					return false
				}
				if isProvider(cc.Common()) {
					return true
				}
				if f := cc.Common().StaticCallee(); f != nil && w.IsRulio(f) && f != da {
					if ok, _ := passesSource(w, f, isProvider, isSuccessReturnPS, 1); ok {
						return true
					}
					// a memo that lives for one walk: the helper may also answer out of a map that it is *handed*
					// (a parameter, which the walk's entry point makes afresh) — not out of a field of the location
					walkMemo := func(g *ssa.Function, site *ssa.CallCommon) bool {
						okAll, some := true, false
						edges := map[bedge]bool{}
						// returns that hand back a lookup in a map parameter are fine; every other success return has
						// to lie behind the provider
						var memoRets []ssa.Instruction
						allInstrs(g, func(x ssa.Instruction) {
							ret, isRet := x.(*ssa.Return)
							if !isRet || !isSuccessReturnPS(x) || len(ret.Results) == 0 {
								return
							}
							fromParamMap := false
							dependsOn(ret.Results[0], func(y ssa.Value) bool {
								lk, isLk := y.(*ssa.Lookup)
								if !isLk {
									return false
								}
								if pm, isP := resolveSpill(lk.X).(*ssa.Parameter); isP {
									// ... and what the caller hands in is a parameter of its own or a fresh map
									for i, gp := range g.Params {
										if gp == pm && i < len(site.Args) {
											switch resolveSpill(site.Args[i]).(type) {
											case *ssa.Parameter, *ssa.MakeMap:
												fromParamMap = true
											}
										}
									}
								}
								return false
							})
							if fromParamMap {
								memoRets = append(memoRets, x)
								some = true
							}
						})
						_ = edges
						isMemoRet := func(x ssa.Instruction) bool {
							for _, m := range memoRets {
								if m == x {
									return true
								}
							}
							return false
						}
						isB := func(x ssa.Instruction) bool {
							c := callOf(x)
							return c != nil && isProvider(c)
						}
						isRet := func(x ssa.Instruction) bool {
							_, r := x.(*ssa.Return)
							return r && isSuccessReturnPS(x) && !isMemoRet(x)
						}
						if h, _ := reach(g, nil, isRet, isB, nil); h != nil {
							okAll = false
						}
						return okAll && some
					}
					return walkMemo(f, cc.Common())
				}
				return false
			})
			if !fresh && bad == nil {
				bad = in
			}
		})
		switch {
		case n == 0:
			r.exempt("STATE-FRESH", key, w.Pos(da.Pos()), "the ancestor walk does not recurse: shape not recognised, not decided")
		case bad != nil:
			r.violation("STATE-FRESH", key, w.PosOf(bad), "the walk goes on in a parent Location that it did not get from the provider in this walk: when the System hands out a new object for that name (the parent was deleted and created again, its cache entry expired), the child keeps searching and dispatching against the old one")
		default:
			r.ok("STATE-FRESH", key, w.Pos(da.Pos()), "every parent is resolved through the provider in each walk")
		}
	}
}

// CLOCK-UNITS (C07, C02): expiry is judged in seconds.
func ruleClockUnits(prop string) ruleFn {
	return func(w *World, r *Report) {
		r.Rule("CLOCK-UNITS", "`expires` is UNIX seconds, and checkExpiration / notAfter / the expire helpers compare it with the `now` they are given (0: read the clock yourself).  core has three clocks: Now() in nanoseconds, NowMicros(), NowSecs().  Every non-constant `now` handed to those functions derives from NowSecs() or time.Time.Unix(), never from Now() / NowMicros() / UnixNano(): in nanoseconds every lease, however long, lies in the past", 1)
		targets := map[*ssa.Function]int{}
		for _, name := range []string{"checkExpiration", "notAfter"} {
			if f := w.TryFunc("core", name); f != nil {
				// the int64 parameter after the fact / seconds
				targets[f] = len(f.Params) - 1
			}
		}
		for _, tn := range []string{"IndexedState", "LinearState"} {
			if f := w.TryMethod("core", tn, "expire"); f != nil {
				targets[f] = len(f.Params) - 1
			}
		}
		if f := w.TryFunc("core", "Expire"); f != nil {
			for i, p := range f.Params {
				if b, ok := p.Type().Underlying().(*types.Basic); ok && b.Kind() == types.Int64 {
					targets[f] = i
				}
			}
		}
		isCoarse := func(v ssa.Value) bool {
			c, ok := v.(*ssa.Call)
			if !ok || c.Common().StaticCallee() == nil {
				return false
			}
			f := c.Common().StaticCallee()
			return f.Name() == "NowSecs" || (f.Name() == "Unix" && f.Pkg != nil && f.Pkg.Pkg.Path() == "time")
		}
		isFine := func(v ssa.Value) bool {
			c, ok := v.(*ssa.Call)
			if !ok || c.Common().StaticCallee() == nil {
				return false
			}
			f := c.Common().StaticCallee()
			if f.Pkg != nil && f.Pkg.Pkg.Path() == "time" {
				return f.Name() == "UnixNano" || f.Name() == "UnixMicro" || f.Name() == "UnixMilli"
			}
			return w.RelPkg(f) == "core" && (f.Name() == "Now" || f.Name() == "NowMicros")
		}
		n := 0
		for _, fn := range w.Funcs {
			if !w.IsRulio(fn) || isTestFile(w, fn) {
				continue
			}
			allInstrs(fn, func(in ssa.Instruction) {
				c := callOf(in)
				if c == nil || c.StaticCallee() == nil {
					return
				}
				idx, ok := targets[c.StaticCallee()]
				if !ok || idx >= len(c.Args) {
					return
				}
				arg := c.Args[idx]
				if _, isC := arg.(*ssa.Const); isC {
					return
				}
				if _, isP := arg.(*ssa.Parameter); isP {
					return // handed on: decided at the caller
				}
				n++
				key := "call=" + fname(fn) + "->" + c.StaticCallee().Name()
				switch {
				case dependsOn(arg, isFine):
					r.violation("CLOCK-UNITS", key, w.PosOf(in), "expiry is judged against a clock in nanoseconds / microseconds: every item with an `expires` has expired")
				case dependsOn(arg, isCoarse):
					r.ok("CLOCK-UNITS", key, w.PosOf(in), "judged in seconds")
				default:
					r.ok("CLOCK-UNITS", key, w.PosOf(in), "not derived from a clock in finer units")
				}
			})
		}
		r.stat("CLOCK-UNITS.sites", n)
	}
}

// SCHEDULE-REGISTERS (C15): a schedule request that is acknowledged has registered a job.
func ruleScheduleRegisters(w *World, r *Report) {
	r.Rule("SCHEDULE-REGISTERS", "the add hook takes a nil from Cronner.ScheduleEvent for `the job is registered` (HOOK-ADD).  In each Cronner implementation every success return of ScheduleEvent and Schedule lies behind the call that registers the job — Cron.Add for the in-memory cron, the HTTP request for crolt.  An early `nothing to do` (the same schedule is pending already) skips the registration of the job *function*, which closes over the Location object of the request: a location that is loaded a second time keeps ticking in the object of the first load", 2)
	n := 0
	for _, tn := range []string{"InternalCron", "CroltSimple"} {
		nt := w.TryNamed("cron", tn)
		if nt == nil {
			continue
		}
		for _, mn := range []string{"ScheduleEvent", "Schedule"} {
			fn := w.TryMethod("cron", tn, mn)
			if fn == nil {
				continue
			}
			n++
			key := "fn=" + fname(fn)
			isReg := func(c *ssa.CallCommon) bool {
				f := c.StaticCallee()
				if f == nil {
					return false
				}
				if f.Name() == "Add" && f.Signature.Recv() != nil {
					if rn := namedOf(f.Signature.Recv().Type()); rn != nil && rn.Obj().Name() == "Cron" {
						return true
					}
				}
				if f.Name() == "Do" && f.Signature.Recv() != nil {
					if rn := namedOf(f.Signature.Recv().Type()); rn != nil && rn.Obj().Name() == "HTTPRequest" {
						return true
					}
				}
				return false
			}
			if ok, at := passesSource(w, fn, isReg, isSuccessReturnPS, 2); ok {
				r.ok("SCHEDULE-REGISTERS", key, w.Pos(fn.Pos()), "every acknowledged request has registered the job")
			} else {
				r.violation("SCHEDULE-REGISTERS", key, w.PosOf(at), "a schedule request is acknowledged without the job having been registered")
			}
		}
	}
	if n == 0 {
		r.exempt("SCHEDULE-REGISTERS", "pkg=cron", "", "no Cronner implementation found: not decided")
	}
}

// UNMARSHAL-FRESH (C16): a record decoded in a loop is decoded into a value of its own.
func ruleUnmarshalFresh(w *World, r *Report) {
	r.Rule("UNMARSHAL-FRESH", "encoding/json leaves a field of the destination as it is when the input does not mention it, and crolt's jobs are written with `omitempty` (once, evict, ...).  A polling pass decodes one stored job after the other: the destination of every json.Unmarshal that sits in a loop is allocated in that loop — a destination that outlives the iteration hands the previous job's `evict` to the next one, which is then deleted without having fired", 1)
	n := 0
	for _, fn := range w.Funcs {
		if w.RelPkg(fn) != "crolt" || isTestFile(w, fn) {
			continue
		}
		allInstrs(fn, func(in ssa.Instruction) {
			c := callOf(in)
			if c == nil || c.StaticCallee() == nil || c.StaticCallee().Pkg == nil || c.StaticCallee().Pkg.Pkg.Path() != "encoding/json" || c.StaticCallee().Name() != "Unmarshal" || len(c.Args) != 2 {
				return
			}
			// in a loop?
			b := in.Block()
			inLoop := false
			for _, sb := range b.Succs {
				if sb == b || blockReaches(sb, b, nil) {
					inLoop = true
				}
			}
			if !inLoop {
				return
			}
			dst := c.Args[1]
			if mi, ok := dst.(*ssa.MakeInterface); ok {
				dst = mi.X
			}
			al, ok := resolveSpill(dst).(*ssa.Alloc)
			if !ok {
				// a closure variable or a field: not allocated here at all
				if _, isFree := resolveSpill(dst).(*ssa.FreeVar); !isFree {
					return
				}
			}
			n++
			key := "fn=" + fname(fn)
			fresh := al != nil && blockReaches(b, al.Block(), nil) && blockReaches(al.Block(), b, nil)
			if fresh {
				r.ok("UNMARSHAL-FRESH", key, w.PosOf(in), "each record is decoded into a value of its own")
			} else {
				r.violation("UNMARSHAL-FRESH", key, w.PosOf(in), "the records of a pass are decoded into one value: a field that a record does not mention (omitempty: once, evict) keeps what the previous record had")
			}
		})
	}
	if n == 0 {
		r.exempt("UNMARSHAL-FRESH", "pkg=crolt", "", "no json.Unmarshal in a loop found: not decided")
	}
}

// ERR-REDRESS (C06, C13): an error that callers classify by its type keeps its type.
func ruleErrRedress(prop string) ruleFn {
	return func(w *World, r *Report) {
		r.Rule("ERR-REDRESS", "rulio classifies errors with plain type assertions (err.(*ExpiredError), err.(*NotFoundError), ...), not with errors.As: IndexedState.Load recognises a stored fact that has expired that way and sweeps it; everything else is a failed load.  A function that can hand out an error of a rulio type T (it makes one, or hands on the error of a function that can), and whose error some caller — directly or through functions that hand it on — tests for T, never re-dresses an error on its way out: no fmt.Errorf in it (or in a function it defers) is given an existing error as an argument and returned in its place.  `fact 'x': %w` around an *ExpiredError is no *ExpiredError any more: the location can never be loaded again, and every request answers with that error", 1)
		errTypeOf := func(t types.Type) *types.Named {
			pt, ok := t.(*types.Pointer)
			if !ok {
				return nil
			}
			nt, ok := pt.Elem().(*types.Named)
			if !ok || nt.Obj().Pkg() == nil || !strings.HasPrefix(nt.Obj().Pkg().Path(), modPath) {
				return nil
			}
			return nt
		}
		returnsErr := func(g *ssa.Function) bool {
			rs := g.Signature.Results()
			return rs.Len() > 0 && isErrorType(rs.At(rs.Len()-1).Type())
		}
		errOperands := func(f *ssa.Function, visit func(v ssa.Value)) {
			withAnon(f, func(g *ssa.Function) {
				allInstrs(g, func(in ssa.Instruction) {
					switch t := in.(type) {
					case *ssa.Return:
						if g != f {
							return
						}
						for _, rv := range t.Results {
							if isErrorType(rv.Type()) {
								visit(rv)
							}
						}
					case *ssa.Store:
						if isErrorType(t.Val.Type()) {
							visit(t.Val)
						}
					}
				})
			})
		}
		var all []*ssa.Function
		for _, fn := range w.Funcs {
			if w.IsRulio(fn) && !isTestFile(w, fn) && fn.Parent() == nil && len(fn.Blocks) > 0 {
				all = append(all, fn)
			}
		}
		// canReturn[f]: the rulio error types f can hand out
		canReturn := map[*ssa.Function]map[string]bool{}
		addT := func(m map[*ssa.Function]map[string]bool, f *ssa.Function, t string) bool {
			if m[f] == nil {
				m[f] = map[string]bool{}
			}
			if m[f][t] {
				return false
			}
			m[f][t] = true
			return true
		}
		for changed := true; changed; {
			changed = false
			for _, f := range all {
				if !returnsErr(f) {
					continue
				}
				errOperands(f, func(v ssa.Value) {
					dependsOn(v, func(x ssa.Value) bool {
						switch t := x.(type) {
						case *ssa.MakeInterface:
							if nt := errTypeOf(t.X.Type()); nt != nil && addT(canReturn, f, nt.Obj().Name()) {
								changed = true
							}
						case *ssa.Call:
							for _, g := range w.Callees(t) {
								for ty := range canReturn[g] {
									if addT(canReturn, f, ty) {
										changed = true
									}
								}
							}
						}
						return false
					})
				})
			}
		}
		// tested[f]: the types some caller tests f's error for (directly, or through functions that hand it on)
		tested := map[*ssa.Function]map[string]bool{}
		where := map[string]string{}
		for _, fn := range w.Funcs {
			if !w.IsRulio(fn) || isTestFile(w, fn) {
				continue
			}
			allInstrs(fn, func(in ssa.Instruction) {
				ta, ok := in.(*ssa.TypeAssert)
				if !ok || !isErrorType(ta.X.Type()) {
					return
				}
				nt := errTypeOf(ta.AssertedType)
				if nt == nil {
					return
				}
				dependsOn(ta.X, func(v ssa.Value) bool {
					if c, ok := v.(*ssa.Call); ok {
						for _, g := range w.Callees(c) {
							if w.IsRulio(g) && !isTestFile(w, g) && returnsErr(g) {
								addT(tested, g, nt.Obj().Name())
								if where[nt.Obj().Name()] == "" {
									where[nt.Obj().Name()] = fname(fn)
								}
							}
						}
					}
					return false
				})
			})
		}
		for changed := true; changed; {
			changed = false
			for _, f := range all {
				if len(tested[f]) == 0 {
					continue
				}
				errOperands(f, func(v ssa.Value) {
					dependsOn(v, func(x ssa.Value) bool {
						if c, ok := x.(*ssa.Call); ok {
							for _, g := range w.Callees(c) {
								if !w.IsRulio(g) || isTestFile(w, g) || !returnsErr(g) {
									continue
								}
								for ty := range tested[f] {
									if canReturn[g][ty] && addT(tested, g, ty) {
										changed = true
									}
								}
							}
						}
						return false
					})
				})
			}
		}
		n := 0
		sort.Slice(all, func(i, j int) bool { return fname(all[i]) < fname(all[j]) })
		for _, f := range all {
			var tys []string
			for ty := range tested[f] {
				if canReturn[f][ty] {
					tys = append(tys, ty)
				}
			}
			if len(tys) == 0 {
				continue
			}
			sort.Strings(tys)
			n++
			key := "fn=" + fname(f)
			var bad ssa.Instruction
			withAnon(f, func(g *ssa.Function) {
				allInstrs(g, func(in ssa.Instruction) {
					c, ok := in.(*ssa.Call)
					if !ok || c.Common().StaticCallee() == nil || c.Common().StaticCallee().Pkg == nil {
						return
					}
					cf := c.Common().StaticCallee()
					if !(cf.Pkg.Pkg.Path() == "fmt" && cf.Name() == "Errorf") {
						return
					}
					// an existing error among the arguments, which can be of one of the types
					takesErr := false
					if len(c.Common().Args) >= 2 {
						for _, a := range variadicArgs(c.Common().Args[len(c.Common().Args)-1]) {
							if ci, ok := a.(*ssa.ChangeInterface); ok {
								a = ci.X
							}
							if a == nil || !isErrorType(a.Type()) {
								continue
							}
							could := false
							dependsOn(a, func(v ssa.Value) bool {
								switch t := v.(type) {
								case *ssa.Call:
									for _, h := range w.Callees(t) {
										for _, ty := range tys {
											if canReturn[h][ty] {
												could = true
											}
										}
									}
								case *ssa.MakeInterface:
									if nt := errTypeOf(t.X.Type()); nt != nil {
										could = true
									}
								case *ssa.FreeVar, *ssa.Alloc:
									could = true // the named result: whatever the function hands out
								}
								return false
							})
							if could {
								takesErr = true
							}
						}
					}
					if !takesErr {
						return
					}
					// ... and handed back in its place: returned, or stored into the (captured) named result
					out := false
					allInstrs(g, func(x ssa.Instruction) {
						switch t := x.(type) {
						case *ssa.Return:
							for _, rv := range t.Results {
								if isErrorType(rv.Type()) && dependsOn(rv, func(v ssa.Value) bool { return v == ssa.Value(c) }) {
									out = true
								}
							}
						case *ssa.Store:
							if !isErrorType(t.Val.Type()) || !dependsOn(t.Val, func(v ssa.Value) bool { return v == ssa.Value(c) }) {
								return
							}
							if _, isFree := t.Addr.(*ssa.FreeVar); isFree {
								out = true
							}
						}
					})
					if out && bad == nil {
						bad = in
					}
				})
			})
			what := strings.Join(tys, ", ") + " (tested in " + where[tys[0]] + ")"
			if bad != nil {
				r.violation("ERR-REDRESS", key, w.PosOf(bad), "an error that can be a *"+what+" is re-dressed on its way out: the caller's classification no longer matches")
			} else {
				r.ok("ERR-REDRESS", key, w.Pos(f.Pos()), "hands on *"+what+" as it is")
			}
		}
		if n == 0 {
			r.exempt("ERR-REDRESS", "pkg=core", "", "no error classified by a type assertion found: not decided")
		}
	}
}

// FLAG-NO-LEASE (C10): the `disabled` flag lives exactly as long as somebody wants it.
func ruleFlagNoLease(w *World, r *Report) {
	r.Rule("FLAG-NO-LEASE", "a rule is disabled until it is enabled or removed: the flag that Location.EnableRule(false) writes goes with the rule (its deleteWith: PROP-DW) or by EnableRule(true), and by nothing else.  The fact that carries the flag is therefore written without an `expires` / `ttl` of its own: a lease copied from the rule at the time of disabling outlives nothing the rule's removal would not take anyway, and ends too early as soon as the rule is written again with a later lease — the rule then fires although nobody enabled it", 1)
	fn := w.Method("core", "Location", "EnableRule")
	key := "fn=" + fname(fn)
	var bad ssa.Instruction
	allInstrs(fn, func(in ssa.Instruction) {
		mu, ok := in.(*ssa.MapUpdate)
		if !ok {
			return
		}
		if k, isC := constKey(mu.Key); isC && (k == "expires" || k == "ttl") && bad == nil {
			bad = in
		}
	})
	if bad != nil {
		r.violation("FLAG-NO-LEASE", key, w.PosOf(bad), "the `disabled` flag is written with a lease of its own")
	} else {
		r.ok("FLAG-NO-LEASE", key, w.Pos(fn.Pos()), "the flag is written without a lease")
	}
}

// INDEX-LOAD (C08, C17, C06): what Add keeps up to date, Load builds.
func ruleIndexLoad(prop string) ruleFn {
	return func(w *World, r *Report) {
		r.Rule("INDEX-LOAD", "a state is rebuilt from storage by Load, and after that it has to answer as the state that was written to did.  Every map field of a State implementation that the Add path writes (the facts, and every index derived from them: terms, rule patterns, a reverse index of deleteWith) is also written on the Load path — by Load going through the same internal add, or by filling it itself.  An index that only Add maintains is empty after a reload: with a cache TTL of `never` every request reloads, and removals no longer cascade", 2)
		a := newLocAnchors(w)
		n := 0
		for nt := range a.stateImp {
			owner := typeKey(nt)
			st := structOf(nt)
			if st == nil {
				continue
			}
			reachWrites := func(root *ssa.Function) map[string]bool {
				out := map[string]bool{}
				seen := map[*ssa.Function]bool{}
				var visit func(f *ssa.Function, d int)
				visit = func(f *ssa.Function, d int) {
					if f == nil || seen[f] || len(f.Blocks) == 0 || d > 6 {
						return
					}
					seen[f] = true
					allInstrs(f, func(in ssa.Instruction) {
						if mu, ok := in.(*ssa.MapUpdate); ok {
							if n2, fld, _, ok := loadedField(mu.Map); ok && typeKey(n2) == owner {
								out[fld] = true
							}
						}
						if c := callOf(in); c != nil {
							if g := c.StaticCallee(); g != nil {
								if o2, ok := stateOwnerOf(a, g); ok && o2 == owner {
									visit(g, d+1)
								}
							}
						}
					})
				}
				visit(root, 0)
				return out
			}
			add := w.TryMethod(typeRel(nt), nt.Obj().Name(), "Add")
			load := w.TryMethod(typeRel(nt), nt.Obj().Name(), "Load")
			if add == nil || load == nil {
				continue
			}
			aw, lw := reachWrites(add), reachWrites(load)
			var fields []string
			for f := range aw {
				fields = append(fields, f)
			}
			sort.Strings(fields)
			for _, f := range fields {
				if f == "cachedRules" {
					continue // parsed on demand, by events
				}
				n++
				key := "field=" + owner + "." + f
				if lw[f] {
					r.ok("INDEX-LOAD", key, w.Pos(load.Pos()), "written on the Add path and on the Load path")
				} else {
					r.violation("INDEX-LOAD", key, w.Pos(load.Pos()), "the Add path keeps this map up to date, the Load path never writes it: after a reload it is empty")
				}
			}
		}
		if n == 0 {
			r.exempt("INDEX-LOAD", "iface=core.State", "", "no map field written on an Add path: shape not recognised, not decided")
		}
	}
}

// HOOK-ATOMIC (C12): in IndexedState the hook and the change it belongs to are one step.
func ruleHookAtomic(w *World, r *Report) {
	r.Rule("HOOK-ATOMIC", "IndexedState holds its write lock from before a state hook runs until the change the hook belongs to is in memory and in storage (LOCK-DEFER): unscheduling a rule's job and removing the rule, scheduling it and storing it, are one step for every other request.  Every call of the add or the removal hook in IndexedState's methods is therefore made with the state's lock acquired in that method, or in every method of the state that calls it.  With the hook in front of the lock (`it can be slow`), an AddRule of the same id that lands between a RemRule's hook and its removal leaves a cron job for a rule that is not stored", 3)
	e := newLocksetEngine(w, nil)
	lock := idxState + ".RWMutex"
	nt := w.Named("core", "IndexedState")
	lockedBefore := func(fn *ssa.Function, at ssa.Instruction) bool {
		isAcq := func(in ssa.Instruction) bool { return e.acquires(in, lock) }
		h, _ := reach(fn, nil, func(x ssa.Instruction) bool { return x == at }, isAcq, nil)
		return h == nil
	}
	n := 0
	for _, fn := range w.MethodsOf(nt) {
		if isTestFile(w, fn) {
			continue
		}
		allInstrs(fn, func(in ssa.Instruction) {
			_, isAdd := hookCall(idxState, "addHook", in)
			_, isRem := hookCall(idxState, "remHook", in)
			if !isAdd && !isRem {
				return
			}
			n++
			key := "hook call in " + fname(fn)
			if lockedBefore(fn, in) {
				r.ok("HOOK-ATOMIC", key, w.PosOf(in), "the hook runs with the state's lock held")
				return
			}
			// every caller inside the state holds it
			callers := 0
			okAll := true
			for _, ed := range w.Callers(fn) {
				cf := ed.Caller.Func
				if cf == nil || isTestFile(w, cf) {
					continue
				}
				if o, ok := stateOwnerOf(newLocAnchors(w), cf); !ok || o != idxState {
					continue
				}
				callers++
				if cf.Name() == "Load" {
					continue // nobody else has the state yet
				}
				if !lockedBefore(cf, ed.Site) {
					okAll = false
				}
			}
			if callers > 0 && okAll {
				r.ok("HOOK-ATOMIC", key, w.PosOf(in), "the hook runs with the state's lock held by every caller")
			} else {
				r.violation("HOOK-ATOMIC", key, w.PosOf(in), "the hook runs before the state's lock is taken: the hook's effect (a cron job scheduled or unscheduled) and the change of the state are two steps, and another request on the same id can land between them")
			}
		})
	}
	if n == 0 {
		r.exempt("HOOK-ATOMIC", "type="+idxState, "", "no hook call found: not decided")
	}
}

// TERM-NUMBERS (C02, C03): if numbers are index terms, every Go number is.
func ruleTermNumbers(prop string) ruleFn {
	return func(w *World, r *Report) {
		r.Rule("TERM-NUMBERS", "the terms that IndexedState's extractor derives from a *pattern* are required terms: a fact that is not filed under each of them is never looked at.  Today only strings are terms.  If the extractor's type switch gets a case for a number type (so that {\"channel\":7} becomes selective), it has one for every Go number kind: a JSON pattern's 7 is a float64, the 7 of a fact that a script or a Go caller wrote is an int64 or an int — filed under no number term, such a fact is lost to every pattern that mentions the number, although the matcher would accept it (CAST-NUMBERS)", 1)
		fn := w.TryFunc("core", "extractTermsAux")
		if fn == nil {
			r.exempt("TERM-NUMBERS", "fn=core.extractTermsAux", "", "not found: not decided")
			return
		}
		key := "fn=" + fname(fn)
		have := map[string]bool{}
		for _, p := range fn.Params {
			for t := range assertedTypes(fn, func(v ssa.Value) bool { return v == ssa.Value(p) }) {
				have[t] = true
			}
		}
		any := false
		var missing []string
		for t := range goNumericTypes {
			if have[t] {
				any = true
			} else {
				missing = append(missing, t)
			}
		}
		sort.Strings(missing)
		switch {
		case !any:
			r.ok("TERM-NUMBERS", key, w.Pos(fn.Pos()), "numbers are not index terms")
		case len(missing) > 0:
			r.violation("TERM-NUMBERS", key, w.Pos(fn.Pos()), "some numbers are index terms, but a fact's number of type "+strings.Join(missing, ", ")+" is filed under none: a pattern that mentions the number never finds that fact")
		default:
			r.ok("TERM-NUMBERS", key, w.Pos(fn.Pos()), "every Go number kind is a term")
		}
	}
}

// MEMO-KEY (C04, C11, C14): a remembered result is remembered under everything it was computed from.
func ruleMemoKey(prop string) ruleFn {
	return func(w *World, r *Report) {
		r.Rule("MEMO-KEY", "core.Cache remembers results (the text behind a URL; with a compiled-script cache, a parsed program).  Where a function puts a value into a Cache (Cache.Add, or the thunk of Cache.GetWith), the key depends on every parameter of that function (the receiver included, the Context excepted) that the value depends on.  A compiled script depends on the code, on the *names* of its libraries and on the *location*, whose Control resolves those names: keyed by location and code, two actions with the same text and different libraries run one program twice; keyed by names and code, a location of one group runs another group's library", 1)
		cacheT := w.Named("core", "Cache")
		ctxT := w.Named("core", "Context")
		isCtx := func(t types.Type) bool {
			p, ok := t.(*types.Pointer)
			if !ok {
				return false
			}
			n, ok := p.Elem().(*types.Named)
			return ok && n.Obj() == ctxT.Obj()
		}
		n := 0
		for _, fn := range w.Funcs {
			if !w.IsRulio(fn) || isTestFile(w, fn) || fn.Parent() != nil {
				continue
			}
			if nt := namedOf(recvType(fn)); nt != nil && nt.Obj() == cacheT.Obj() {
				continue // the cache's own methods
			}
			allInstrs(fn, func(in ssa.Instruction) {
				c := callOf(in)
				if c == nil || c.StaticCallee() == nil || c.StaticCallee().Signature.Recv() == nil || len(c.Args) < 3 {
					return
				}
				f := c.StaticCallee()
				if rn := namedOf(f.Signature.Recv().Type()); rn == nil || rn.Obj() != cacheT.Obj() {
					return
				}
				if f.Name() != "Add" && f.Name() != "GetWith" {
					return
				}
				n++
				key := "fn=" + fname(fn) + " " + f.Name()
				keyV, valV := c.Args[1], c.Args[2]
				var vals []ssa.Value
				if mc, ok := resolveSpill(valV).(*ssa.MakeClosure); ok {
					vals = append(vals, mc.Bindings...)
				} else {
					vals = append(vals, valV)
				}
				var missing []string
				for _, p := range fn.Params {
					if isCtx(p.Type()) {
						continue
					}
					isP := func(v ssa.Value) bool { return v == ssa.Value(p) }
					used := false
					for _, v := range vals {
						if dependsOn(v, isP) {
							used = true
						}
					}
					if used && !dependsOn(keyV, isP) {
						missing = append(missing, p.Name())
					}
				}
				if len(missing) > 0 {
					r.violation("MEMO-KEY", key, w.PosOf(in), "the remembered value depends on "+strings.Join(missing, ", ")+", the key does not: a call that differs only there gets the other call's result")
				} else {
					r.ok("MEMO-KEY", key, w.PosOf(in), "the key covers what the value is computed from")
				}
			})
		}
		if n == 0 {
			r.ok("MEMO-KEY", "type=core.Cache", "", "nothing is put into a core.Cache outside the cache itself")
		}
	}
}

func recvType(fn *ssa.Function) types.Type {
	if fn.Signature.Recv() == nil {
		return nil
	}
	return fn.Signature.Recv().Type()
}

// REQ-DECODE-STRICT (C18): a malformed request is refused, and a request starts from nothing.
func ruleReqDecodeStrict(w *World, r *Report) {
	r.Rule("REQ-DECODE-STRICT", "service.GetHTTPRequest turns a request into the parameter map of an operation.  (1) The query string is parsed with url.ParseQuery, whose error refuses the request; (*url.URL).Query() parses the same string and silently drops every pair it cannot decode — `id=%zz`, `inherited=true;x` — so the request succeeds as a *different* operation (a fact stored under a generated id, a list without the inherited rules).  No function of the service package calls URL.Query.  (2) The map is made for the request: nothing that GetHTTPRequest returns comes out of a sync.Pool (or another value that outlives the request) — a map that is put back on an error path without being cleared hands its `take=true` or its `id` to the next request that draws it", 2)
	n := 0
	var lenient ssa.Instruction
	var pooled ssa.Instruction
	for _, fn := range w.Funcs {
		if w.RelPkg(fn) != "service" || isTestFile(w, fn) {
			continue
		}
		allInstrs(fn, func(in ssa.Instruction) {
			c := callOf(in)
			if c == nil || c.StaticCallee() == nil || c.StaticCallee().Pkg == nil {
				return
			}
			f := c.StaticCallee()
			switch {
			case f.Pkg.Pkg.Path() == "net/url" && f.Name() == "ParseQuery":
				n++
			case f.Pkg.Pkg.Path() == "net/url" && f.Name() == "Query" && f.Signature.Recv() != nil:
				if lenient == nil {
					lenient = in
				}
			case f.Pkg.Pkg.Path() == "sync" && f.Name() == "Get" && f.Signature.Recv() != nil:
				if pooled == nil {
					pooled = in
				}
			}
		})
	}
	if lenient != nil {
		r.violation("REQ-DECODE-STRICT", "pkg=service query", w.PosOf(lenient), "the query string is read with URL.Query(), which drops what it cannot decode instead of refusing the request")
	} else if n == 0 {
		r.exempt("REQ-DECODE-STRICT", "pkg=service query", "", "the service package does not parse a query string: shape not recognised, not decided")
	} else {
		r.ok("REQ-DECODE-STRICT", "pkg=service query", "", "query strings are parsed with url.ParseQuery ("+itoa(n)+" call(s)), whose error refuses the request")
	}
	if pooled != nil {
		r.violation("REQ-DECODE-STRICT", "pkg=service fresh", w.PosOf(pooled), "request state is drawn from a sync.Pool: what a refused request left in it is the next request's parameters")
	} else {
		r.ok("REQ-DECODE-STRICT", "pkg=service fresh", "", "no request state is pooled")
	}
}

// LOOPVAR-GO (C16, C04): a goroutine started in a loop works on its own iteration's value.
func ruleLoopvarGo(prop string) ruleFn {
	return func(w *World, r *Report) {
		r.Rule("LOOPVAR-GO", "rulio's go.mod says `go 1.14`: a `for` loop has one variable for all its iterations.  A function literal that is started with `go` inside a loop and refers to the loop's variable (instead of taking it as a parameter) sees whatever the variable holds when the goroutine gets to run — usually the last element: of several cron jobs that are due at the same tick the last one runs k times and the others never; of a rule's actions the last one runs for all.  No `go` statement in a loop binds a variable that is assigned in the loop and allocated outside it", 2)
		n := 0
		for _, fn := range w.Funcs {
			if !w.IsRulio(fn) || isTestFile(w, fn) || len(fn.Blocks) == 0 || strings.HasPrefix(w.RelPkg(fn), "tools") || strings.HasPrefix(w.RelPkg(fn), "examples") {
				continue // (the engine and its services; tools/sim has one, in a load generator)
			}
			var loops []*natLoop
			allInstrs(fn, func(in ssa.Instruction) {
				g, ok := in.(*ssa.Go)
				if !ok {
					return
				}
				mc, ok := g.Call.Value.(*ssa.MakeClosure)
				if !ok {
					return
				}
				if loops == nil {
					loops = naturalLoops(fn)
				}
				var in_ []*natLoop
				for _, l := range loops {
					if l.Body[in.Block()] {
						in_ = append(in_, l)
					}
				}
				if len(in_) == 0 {
					return
				}
				n++
				key := "go in " + fname(fn) + " -> " + fname(mc.Fn.(*ssa.Function))
				bad := ""
				for _, b := range mc.Bindings {
					al, ok := b.(*ssa.Alloc)
					if !ok {
						continue
					}
					for _, l := range in_ {
						if l.Body[al.Block()] {
							continue // allocated per iteration
						}
						for _, ref := range *al.Referrers() {
							if st, ok := ref.(*ssa.Store); ok && st.Addr == ssa.Value(al) && l.Body[st.Block()] {
								bad = al.Comment
								if bad == "" {
									bad = al.Name()
								}
							}
						}
					}
				}
				if bad != "" {
					r.violation("LOOPVAR-GO", key, w.PosOf(in), "the goroutine refers to `"+bad+"`, which the loop assigns on every iteration: all goroutines of the loop see the value of a later iteration")
				} else {
					r.ok("LOOPVAR-GO", key, w.PosOf(in), "the goroutine binds nothing that the loop reassigns")
				}
			})
		}
		if n == 0 {
			r.exempt("LOOPVAR-GO", "module", "", "no `go` statement with a function literal inside a loop: not decided")
		}
	}
}

// collectorOf: the function that does fn's collecting.  A reader that must not remove anything under its read lock
// (`doFindRules`, `Search`) is a retry loop around a helper with the same results that takes the lock and walks the
// candidates; the rules about the walk are decided there.
func collectorOf(w *World, fn *ssa.Function) *ssa.Function {
	if fn == nil || fn.Signature.Recv() == nil {
		return fn
	}
	var out *ssa.Function
	n := 0
	allInstrs(fn, func(in ssa.Instruction) {
		c := callOf(in)
		if c == nil || c.StaticCallee() == nil || c.StaticCallee() == fn {
			return
		}
		g := c.StaticCallee()
		if g.Signature.Recv() == nil || len(g.Blocks) == 0 || !types.Identical(g.Signature.Recv().Type(), fn.Signature.Recv().Type()) {
			return
		}
		if !types.Identical(g.Signature.Results(), fn.Signature.Results()) {
			return
		}
		if out != g {
			n++
		}
		out = g
	})
	if n == 1 {
		return out
	}
	return fn
}

// PURGE-RECHECK (C07, C12): what a reader noted as expired is looked at again before it goes.
func rulePurgeRecheck(prop string) ruleFn {
	return func(w *World, r *Report) {
		r.Rule("PURGE-RECHECK", "a reader that meets an expired fact only notes its id; the removal happens later, under the write lock, in a function of the state that is handed the ids.  Between the two, a writer can store a new fact under the same id — one without any expiry.  Every removal that such a function makes for an id out of the list it was given is therefore made by an expiry judge that looks at what is stored under the id *now* (a helper that judges and removes), never by the removal primitive itself: removed by id, the new fact is gone from memory and from storage, and is never returned again", 2)
		a := newLocAnchors(w)
		judges := expiryJudges(w)
		n := 0
		for _, fn := range w.Funcs {
			owner, ok := stateOwnerOf(a, fn)
			if !ok || isTestFile(w, fn) || fn.Parent() != nil {
				continue
			}
			var list *ssa.Parameter
			for _, p := range fn.Params {
				if sl, isSl := p.Type().Underlying().(*types.Slice); isSl {
					if b, isB := sl.Elem().Underlying().(*types.Basic); isB && b.Kind() == types.String {
						list = p
					}
				}
			}
			if list == nil {
				continue
			}
			fromList := func(v ssa.Value) bool {
				return dependsOn(v, func(x ssa.Value) bool { return x == ssa.Value(list) })
			}
			key := "fn=" + fname(fn)
			removes, bad := 0, ""
			allInstrs(fn, func(in ssa.Instruction) {
				c := callOf(in)
				if c == nil || c.StaticCallee() == nil {
					return
				}
				f := c.StaticCallee()
				if o2, ok := stateOwnerOf(a, f); !ok || o2 != owner {
					return
				}
				idArg := false
				for _, arg := range c.Args {
					if b, isB := arg.Type().Underlying().(*types.Basic); isB && b.Kind() == types.String && fromList(arg) {
						idArg = true
					}
				}
				if !idArg {
					return
				}
				switch {
				case judges[f]:
					removes++
				case f.Name() == "rem" || f.Name() == "Rem":
					removes++
					bad = w.PosOf(in)
				}
			})
			if removes == 0 {
				continue
			}
			n++
			if bad != "" {
				r.violation("PURGE-RECHECK", key, bad, "an id that a reader noted earlier is removed without a look at what is stored under it now: a fact written in the meantime — one that never expires — is removed from memory and storage")
			} else {
				r.ok("PURGE-RECHECK", key, w.Pos(fn.Pos()), "every id is judged again, on what is stored now, by the helper that removes it")
			}
		}
		if n == 0 {
			r.exempt("PURGE-RECHECK", "iface=core.State", "", "no state function removes ids out of a list it is handed: the premise (readers note, a purge removes) does not hold; not decided")
		}
	}
}

// PANIC-MUST (C13): a pattern that comes from a request is compiled with the function that returns an error.
func rulePanicMust(w *World, r *Report) {
	r.Rule("PANIC-MUST", "regexp.MustCompile (and the other Must* constructors of the standard library) panic on a malformed argument; they are for patterns written into the program.  No call of such a function in core, sys, service or cron has an argument that is not a constant: a variable name out of a rule's pattern (`?value[`), spliced into a regular expression and compiled with MustCompile, panics in the goroutine of a concurrently run action, outside the script engine's recover, and takes the process down", 1)
	n := 0
	for _, fn := range w.Funcs {
		if !w.IsRulio(fn) || isTestFile(w, fn) {
			continue
		}
		if p := w.RelPkg(fn); p != "core" && p != "sys" && p != "service" && p != "cron" {
			continue
		}
		allInstrs(fn, func(in ssa.Instruction) {
			c := callOf(in)
			if c == nil || c.StaticCallee() == nil || c.StaticCallee().Pkg == nil || w.IsRulio(c.StaticCallee()) {
				return
			}
			f := c.StaticCallee()
			if !strings.HasPrefix(f.Name(), "Must") {
				return
			}
			n++
			key := "call=" + fname(fn) + "->" + f.Pkg.Pkg.Name() + "." + f.Name()
			konst := true
			for _, a := range c.Args {
				if _, isC := a.(*ssa.Const); !isC {
					konst = false
				}
			}
			if konst {
				r.ok("PANIC-MUST", key, w.PosOf(in), "a pattern written into the program")
			} else {
				r.violation("PANIC-MUST", key, w.PosOf(in), "a "+f.Name()+" whose argument is computed at run time: a malformed value panics here instead of being refused")
			}
		})
	}
	if n == 0 {
		r.ok("PANIC-MUST", "module", "", "no Must* constructor is called outside tests")
	}
}

// ACTION-BINDINGS-OWN (C04, C12): what an action is handed is its own, all the way down.
func ruleActionBindingsOwn(prop string) ruleFn {
	return func(w *World, r *Report) {
		r.Rule("ACTION-BINDINGS-OWN", "the actions of a rule run concurrently, each in a script runtime that reads and writes the Go maps it is handed in place (otto works on them through reflection).  Where the condition's result is turned into one ExecRuleAction per action, the bindings of each are therefore a map made for that action whose values went through core.Copy: a structured value bound by the rule's `when` is otherwise one Go map in all the rule's actions, an action that annotates it alters what the others see, and the runtime ends the process with `concurrent map read and map write` — one ordinary event, no second client", 1)
		cp := w.Func("core", "Copy")
		n := 0
		for _, fn := range w.Funcs {
			if w.RelPkg(fn) != "core" || isTestFile(w, fn) {
				continue
			}
			allInstrs(fn, func(in ssa.Instruction) {
				st, ok := in.(*ssa.Store)
				if !ok {
					return
				}
				nn, f, _, ok := fieldOf(st.Addr)
				if !ok || typeKey(nn) != "core.ExecRuleAction" || f != "Bindings" {
					return
				}
				// one per action: the store lies in a loop
				inLoop := false
				for _, l := range naturalLoops(fn) {
					if l.Body[st.Block()] {
						inLoop = true
					}
				}
				if !inLoop {
					return
				}
				n++
				key := "fn=" + fname(fn) + " store=ExecRuleAction.Bindings#" + itoa(n)
				v := st.Val
				for {
					if ct, isCT := v.(*ssa.ChangeType); isCT {
						v = ct.X
						continue
					}
					break
				}
				mk, isMake := v.(*ssa.MakeMap)
				if !isMake {
					r.violation("ACTION-BINDINGS-OWN", key, w.PosOf(in), "every action of the rule is handed the same bindings map")
					return
				}
				bad := ""
				fills := 0
				for _, ref := range *mk.Referrers() {
					mu, isMU := ref.(*ssa.MapUpdate)
					if !isMU || mu.Map != ssa.Value(mk) {
						continue
					}
					fills++
					if !dependsOn(mu.Value, func(x ssa.Value) bool {
						c, isC := x.(*ssa.Call)
						return isC && c.Common().StaticCallee() == cp
					}) {
						bad = w.PosOf(mu)
					}
				}
				switch {
				case bad != "":
					r.violation("ACTION-BINDINGS-OWN", key, bad, "the action's map is its own, but the values in it are the same Go objects in every action of the rule (no core.Copy on the way): scripts that write to a bound object race on one map")
				case fills == 0:
					r.exempt("ACTION-BINDINGS-OWN", key, w.PosOf(in), "the map is not filled in this function: shape not recognised, not decided")
				default:
					r.ok("ACTION-BINDINGS-OWN", key, w.PosOf(in), "a map per action, values copied")
				}
			})
		}
		if n == 0 {
			r.exempt("ACTION-BINDINGS-OWN", "fn=<none>", "", "no per-action store into ExecRuleAction.Bindings found: shape not recognised, not decided")
		}
	}
}

// JOB-FLAG-LOCKED (C16): the fields of a job that the cron writes under its lock are read under it.
func ruleJobFlagLocked(w *World, r *Report) {
	r.Rule("JOB-FLAG-LOCKED", "the in-memory cron marks a job that is removed while its Fn runs (`cancelled`), under the cron's mutex, from the goroutine of whoever removes it; the job's own goroutine runs at that moment.  Every read of an unexported field of cron.CronJob that some method of cron.Cron stores under the mutex — a read of the field, or a copy of the whole struct (`*job`, as in a log record) — is therefore made with the mutex held: in the function, after a Lock that is not released in between, or in a function all of whose callers hold it at the call.  Anything else is a data race between `Rem` and a tick", 1)
	cronT := w.Named("cron", "Cron")
	jobT := w.Named("cron", "CronJob")
	e := newLocksetEngine(w, guardsCron())
	lock := "cron.Cron.Mutex"
	// the fields in question: unexported fields of CronJob stored in a method of Cron
	guarded := map[string]bool{}
	for _, fn := range w.MethodsOf(cronT) {
		allInstrs(fn, func(in ssa.Instruction) {
			st, ok := in.(*ssa.Store)
			if !ok {
				return
			}
			n, f, _, ok := fieldOf(st.Addr)
			if ok && n == jobT && !token.IsExported(f) {
				guarded[f] = true
			}
		})
	}
	if len(guarded) == 0 {
		r.ok("JOB-FLAG-LOCKED", "type=cron.CronJob", w.Pos(jobT.Obj().Pos()), "no unexported field of a job is written by the cron: nothing to guard")
		return
	}
	var held func(fn *ssa.Function, at ssa.Instruction, depth int) bool
	held = func(fn *ssa.Function, at ssa.Instruction, depth int) bool {
		ok := false
		allInstrs(fn, func(a ssa.Instruction) {
			if ok || !e.acquires(a, lock) || !instrDominates(a, at) {
				return
			}
			if _, isDefer := a.(*ssa.Defer); isDefer {
				return
			}
			if x := between(fn, a, at, func(y ssa.Instruction) bool {
				_, isDefer := y.(*ssa.Defer)
				return !isDefer && e.releases(y, lock)
			}); x == nil {
				ok = true
			}
		})
		if ok {
			return true
		}
		if depth >= 3 {
			return false
		}
		callers := 0
		for _, ed := range w.Callers(fn) {
			cf := ed.Caller.Func
			if isTestFile(w, cf) || cf.Synthetic != "" {
				continue
			}
			callers++
			site, isI := ed.Site.(ssa.Instruction)
			if !isI {
				return false
			}
			if _, isGo := site.(*ssa.Go); isGo {
				return false
			}
			if !held(cf, site, depth+1) {
				return false
			}
		}
		return callers > 0
	}
	n := 0
	for _, fn := range w.Funcs {
		if w.RelPkg(fn) != "cron" || isTestFile(w, fn) {
			continue
		}
		allInstrs(fn, func(in ssa.Instruction) {
			u, ok := in.(*ssa.UnOp)
			if !ok || u.Op != token.MUL {
				return
			}
			what := ""
			if nn := namedOf(u.Type()); nn == jobT {
				if _, isStruct := u.Type().Underlying().(*types.Struct); isStruct {
					if pt, isP := u.X.Type().Underlying().(*types.Pointer); isP && namedOf(pt.Elem()) == jobT {
						if _, local := u.X.(*ssa.Alloc); !local { // (a struct the function just made is nobody else's)
							what = "a copy of the whole job"
						}
					}
				}
			}
			if fa, isFA := u.X.(*ssa.FieldAddr); isFA {
				if nn, f, _, ok := fieldOf(fa); ok && nn == jobT && guarded[f] {
					what = "a read of `" + f + "`"
				}
			}
			if what == "" {
				return
			}
			n++
			key := "fn=" + fname(fn) + " read#" + itoa(n)
			if held(fn, in, 0) {
				r.ok("JOB-FLAG-LOCKED", key, w.PosOf(in), what+" with the cron's mutex held")
			} else {
				r.violation("JOB-FLAG-LOCKED", "fn="+fname(fn), w.PosOf(in), what+" without the cron's mutex: `Rem` writes the job's flag under the mutex at the same time (a data race; `go test -race` reports it)")
			}
		})
	}
	if n == 0 {
		r.exempt("JOB-FLAG-LOCKED", "type=cron.CronJob", w.Pos(jobT.Obj().Pos()), "no read found: shape not recognised, not decided")
	}
}

// EXP-CACHED-GUARD (C07, C10): a parsed rule is only handed out for a fact that was judged in this call.
func ruleExpCachedGuard(prop string) ruleFn {
	return func(w *World, r *Report) {
		r.Rule("EXP-CACHED-GUARD", "the parsed-rule cache is invalidated where a fact changes; nothing invalidates it when a fact's time runs out.  A parsed rule is therefore taken from the cache only for an id whose fact passed the expiry judgement in the same call: the read of the cache either lies behind a call of an expiry judge in its function (on every path from the entry), or its id comes out of the result of a function of the state that judges (the collector).  A cache read in front of the judgement lets a rule with a ttl fire for ever once it has been parsed", 2)
		a := newLocAnchors(w)
		judges := expiryJudges(w)
		// functions of the state layer that reach a judge
		reachJudge := map[*ssa.Function]bool{}
		for f := range judges {
			reachJudge[f] = true
		}
		for changed := true; changed; {
			changed = false
			for _, fn := range w.Funcs {
				if reachJudge[fn] || !a.inStateLayer(fn) || isTestFile(w, fn) {
					continue
				}
				allInstrs(fn, func(in ssa.Instruction) {
					if c := callOf(in); c != nil && c.StaticCallee() != nil && reachJudge[c.StaticCallee()] && !reachJudge[fn] {
						reachJudge[fn], changed = true, true
					}
				})
			}
		}
		n := 0
		for nT := range a.stateImp {
			owner := typeKey(nT)
			// readers of the cache: methods of the state that look an id up in cachedRules and hand back a *Rule
			readers := map[*ssa.Function]bool{}
			for _, fn := range w.MethodsOf(nT) {
				reads := false
				allInstrs(fn, func(in ssa.Instruction) {
					if lk, ok := in.(*ssa.Lookup); ok && isFieldLoad(lk.X, owner, "cachedRules") {
						reads = true
					}
					if c := callOf(in); c != nil && c.StaticCallee() != nil && c.StaticCallee().Pkg != nil && c.StaticCallee().Pkg.Pkg.Path() == "sync" && c.StaticCallee().Name() == "Load" && len(c.Args) > 0 {
						if nn, f, _, ok := fieldOf(c.Args[0]); ok && typeKey(nn) == owner && f == "cachedRules" {
							reads = true
						}
					}
				})
				if reads {
					readers[fn] = true
				}
			}
			isRead := func(fn *ssa.Function) func(in ssa.Instruction) bool {
				return func(in ssa.Instruction) bool {
					if lk, ok := in.(*ssa.Lookup); ok && isFieldLoad(lk.X, owner, "cachedRules") && !readers[fn] {
						return true
					}
					c := callOf(in)
					return c != nil && c.StaticCallee() != nil && readers[c.StaticCallee()] && c.StaticCallee() != fn
				}
			}
			for _, fn := range w.Funcs {
				if o, ok := stateOwnerOf(a, fn); !ok || o != owner || isTestFile(w, fn) || readers[fn] {
					continue
				}
				isR := isRead(fn)
				var sites []ssa.Instruction
				allInstrs(fn, func(in ssa.Instruction) {
					if isR(in) {
						sites = append(sites, in)
					}
				})
				if len(sites) == 0 {
					continue
				}
				isJudge := func(in ssa.Instruction) bool {
					c := callOf(in)
					return c != nil && c.StaticCallee() != nil && judges[c.StaticCallee()]
				}
				hasJudge := false
				allInstrs(fn, func(in ssa.Instruction) {
					if isJudge(in) {
						hasJudge = true
					}
				})
				for _, site := range sites {
					n++
					key := "fn=" + fname(fn) + " cache-read#" + itoa(n)
					if hasJudge {
						if h, _ := reach(fn, nil, func(x ssa.Instruction) bool { return x == site }, isJudge, nil); h == nil {
							r.ok("EXP-CACHED-GUARD", key, w.PosOf(site), "behind the expiry judgement in this function")
						} else {
							r.violation("EXP-CACHED-GUARD", "fn="+fname(fn), w.PosOf(site), "the parsed rule is taken from the cache on a path that has not asked whether the fact has expired: once parsed, a rule with a ttl is dispatched for ever")
						}
						continue
					}
					// no judge here: the id comes out of what a judging function returned
					var idArg ssa.Value
					if c := callOf(site); c != nil && len(c.Args) > 1 {
						idArg = c.Args[1]
					} else if lk, ok := site.(*ssa.Lookup); ok {
						idArg = lk.Index
					}
					fromCollector := idArg != nil && dependsOn(idArg, func(v ssa.Value) bool {
						c, ok := v.(*ssa.Call)
						return ok && c.Common().StaticCallee() != nil && reachJudge[c.Common().StaticCallee()]
					})
					if fromCollector {
						r.ok("EXP-CACHED-GUARD", key, w.PosOf(site), "the id comes out of the result of a function that judges expiry")
					} else {
						r.violation("EXP-CACHED-GUARD", "fn="+fname(fn), w.PosOf(site), "the parsed rule is taken from the cache for an id that nothing in this call judged: once parsed, a rule with a ttl is dispatched for ever")
					}
				}
			}
		}
		if n == 0 {
			r.exempt("EXP-CACHED-GUARD", "type=<states>", "", "no read of the parsed-rule cache found outside its accessor: shape not recognised, not decided")
		}
	}
}

// CACHE-NIL-GUARD (C13): if nil is ever remembered in the parsed-rule cache, nobody hands a remembered value on untested.
func ruleCacheNilGuard(w *World, r *Report) {
	r.Rule("CACHE-NIL-GUARD", "the callers of FindCachedRules dereference every rule they are given.  As long as only parsed rules are stored in the parsed-rule cache that is safe.  If some call stores a nil there (`not a rule: remember that, too`), every value that is read from the cache and then put into a result lies behind a test of that value against nil: a nil *Rule in the result is a nil dereference in the dispatcher, in the goroutine of the event", 1)
	a := newLocAnchors(w)
	n := 0
	for nT := range a.stateImp {
		owner := typeKey(nT)
		// writers: helpers that store a parameter into cachedRules
		writers := map[*ssa.Function]int{}
		readers := map[*ssa.Function]bool{}
		nilStored := ""
		for _, fn := range w.MethodsOf(nT) {
			allInstrs(fn, func(in ssa.Instruction) {
				var val ssa.Value
				if mu, ok := in.(*ssa.MapUpdate); ok && isFieldLoad(mu.Map, owner, "cachedRules") {
					val = mu.Value
				}
				if c := callOf(in); c != nil && c.StaticCallee() != nil && c.StaticCallee().Pkg != nil && c.StaticCallee().Pkg.Pkg.Path() == "sync" && len(c.Args) > 0 {
					if nn, f, _, ok := fieldOf(c.Args[0]); ok && typeKey(nn) == owner && f == "cachedRules" {
						switch c.StaticCallee().Name() {
						case "Store":
							if len(c.Args) == 3 {
								val = c.Args[2]
								if mi, isMI := val.(*ssa.MakeInterface); isMI {
									val = mi.X
								}
							}
						case "Load":
							readers[fn] = true
						}
					}
				}
				if lk, ok := in.(*ssa.Lookup); ok && isFieldLoad(lk.X, owner, "cachedRules") {
					readers[fn] = true
				}
				if val == nil {
					return
				}
				if isNilConst(val) {
					nilStored = w.PosOf(in)
				}
				for i, p := range fn.Params {
					if resolveSpill(val) == ssa.Value(p) {
						writers[fn] = i
					}
				}
			})
		}
		for fn, i := range writers {
			for _, ed := range w.Callers(fn) {
				if isTestFile(w, ed.Caller.Func) {
					continue
				}
				cc := ed.Site.Common()
				if cc.StaticCallee() == fn && i < len(cc.Args) && isNilConst(cc.Args[i]) {
					nilStored = w.PosOf(ed.Site.(ssa.Instruction))
				}
			}
		}
		n++
		key := "type=" + owner
		if nilStored == "" {
			r.ok("CACHE-NIL-GUARD", key, w.Pos(nT.Obj().Pos()), "only values that are not the nil constant are stored in the parsed-rule cache")
			continue
		}
		bad := ""
		for _, fn := range w.Funcs {
			if o, ok := stateOwnerOf(a, fn); !ok || o != owner || isTestFile(w, fn) || readers[fn] {
				continue
			}
			allInstrs(fn, func(in ssa.Instruction) {
				c, ok := in.(*ssa.Call)
				if !ok || c.Common().StaticCallee() == nil || !readers[c.Common().StaticCallee()] {
					return
				}
				// the *Rule out of the read
				var vals []ssa.Value
				for _, ref := range *c.Referrers() {
					if ex, isEx := ref.(*ssa.Extract); isEx && ex.Index == 0 {
						vals = append(vals, ex)
					}
				}
				for _, v := range vals {
					for _, ref := range *v.Referrers() {
						mu, isMU := ref.(*ssa.MapUpdate)
						if !isMU || mu.Value != v {
							continue
						}
						tested := controlDependsOnClassic(fn, mu, func(cv ssa.Value) bool {
							b, isB := cv.(*ssa.BinOp)
							return isB && (b.Op == token.EQL || b.Op == token.NEQ) && ((b.X == v && isNilConst(b.Y)) || (b.Y == v && isNilConst(b.X)))
						}, nil)
						if !tested && bad == "" {
							bad = w.PosOf(mu)
						}
					}
				}
			})
		}
		if bad != "" {
			r.violation("CACHE-NIL-GUARD", key, bad, "a nil is remembered in the parsed-rule cache (at "+nilStored+"), and here a remembered value goes into the result without having been tested against nil: the dispatcher dereferences it")
		} else {
			r.ok("CACHE-NIL-GUARD", key, nilStored, "a nil is remembered in the cache, and every remembered value is tested before it goes into a result")
		}
	}
	if n == 0 {
		r.exempt("CACHE-NIL-GUARD", "type=<states>", "", "no state implementation found")
	}
}

// CASC-LOAD-AFTER (C08): what goes with a record that is found expired at load goes when everything is in.
func ruleCascLoadAfter(w *World, r *Report) {
	r.Rule("CASC-LOAD-AFTER", "a State implementation's Load fills the state in a loop over the stored records.  Inside that loop it calls neither deleteDependencies, nor the removal primitive, nor a helper that judges a record and removes it with its dependents (`expire`): the dependents of a record can come later in the list, and a cascade that runs before they are in finds nothing — they stay, in memory and in storage, for ever (their target is gone).  What was found expired is noted and dealt with after the loop", 2)
	a := newLocAnchors(w)
	purge := purgeHelpers(w)
	for nt := range a.stateImp {
		owner := typeKey(nt)
		load := w.TryMethod(typeRel(nt), nt.Obj().Name(), "Load")
		if load == nil {
			continue
		}
		dd := w.TryMethod(typeRel(nt), nt.Obj().Name(), "deleteDependencies")
		rem := w.TryMethod(typeRel(nt), nt.Obj().Name(), "rem")
		add := w.TryMethod(typeRel(nt), nt.Obj().Name(), "add")
		setters, _ := factMapHelpers(w, a, owner)
		key := "fn=" + fname(load)
		var loading []*natLoop
		for _, l := range naturalLoops(load) {
			fills := false
			for b := range l.Body {
				for _, in := range b.Instrs {
					if mu, ok := in.(*ssa.MapUpdate); ok && isFieldLoad(mu.Map, owner, stateFactField[owner]) {
						fills = true
					}
					if c := callOf(in); c != nil && c.StaticCallee() != nil {
						if _, isSetter := setters[c.StaticCallee()]; isSetter || (add != nil && c.StaticCallee() == add) {
							fills = true
						}
					}
				}
			}
			if fills {
				loading = append(loading, l)
			}
		}
		if len(loading) == 0 {
			r.exempt("CASC-LOAD-AFTER", key, w.Pos(load.Pos()), "no loop that fills the fact map found in Load: shape not recognised, not decided")
			continue
		}
		bad, badName := "", ""
		for _, l := range loading {
			for b := range l.Body {
				for _, in := range b.Instrs {
					c := callOf(in)
					if c == nil || c.StaticCallee() == nil {
						continue
					}
					f := c.StaticCallee()
					if (dd != nil && f == dd) || (rem != nil && f == rem) || purge[f] {
						bad, badName = w.PosOf(in), f.Name()
					}
				}
			}
		}
		if bad != "" {
			r.violation("CASC-LOAD-AFTER", key, bad, "a record is removed with its dependents (`"+badName+"`) while the state is still being filled: dependents that come later in the stored list are not in yet, are not found, and stay behind for ever")
		} else {
			r.ok("CASC-LOAD-AFTER", key, w.Pos(load.Pos()), "nothing is cascaded inside the loop that fills the state")
		}
	}
}

// IDX-EMPTY-ALL (C01, C05, C10): "nothing is filed below this node" looks at every branch a node has.
func ruleIdxEmptyAll(prop string) ruleFn {
	return func(w *World, r *Report) {
		r.Rule("IDX-EMPTY-ALL", "a node of the rule index has several kinds of branches (literal keys, the variable branch, the map branch) and the ids filed at it.  A method of core.PatternIndex that takes nothing, returns a bool and only compares fields of its receiver with empty (`len(x) == 0`, `x == nil`) is a test for `nothing is filed at or below this node`, and what is done with the answer is pruning: it therefore looks at every field of the node that can hold something.  A test that forgets one branch prunes a node that still has rules under that branch, and those rules are never dispatched again", 0)
		pi := w.Named("core", "PatternIndex")
		st, ok := pi.Underlying().(*types.Struct)
		if !ok {
			undecided("IDX-EMPTY-ALL: core.PatternIndex is not a struct")
		}
		var holders []string
		for i := 0; i < st.NumFields(); i++ {
			switch st.Field(i).Type().Underlying().(type) {
			case *types.Map, *types.Pointer, *types.Slice:
				holders = append(holders, st.Field(i).Name())
			}
		}
		n := 0
		for _, fn := range w.MethodsOf(pi) {
			sig := fn.Signature
			if sig.Params().Len() != 0 || sig.Results().Len() != 1 || !types.Identical(sig.Results().At(0).Type(), types.Typ[types.Bool]) || len(fn.Blocks) == 0 {
				continue
			}
			// only field reads of the receiver, len, comparisons with empty, branches
			simple := true
			read := map[string]bool{}
			allInstrs(fn, func(in ssa.Instruction) {
				switch x := in.(type) {
				case *ssa.FieldAddr:
					if x.X != ssa.Value(fn.Params[0]) {
						simple = false
					}
					if _, f, _, ok := fieldOf(x); ok {
						read[f] = true
					}
				case *ssa.UnOp, *ssa.BinOp, *ssa.Phi, *ssa.If, *ssa.Jump, *ssa.Return, *ssa.DebugRef:
				case *ssa.Call:
					if b, isB := x.Common().Value.(*ssa.Builtin); !isB || b.Name() != "len" {
						simple = false
					}
				default:
					simple = false
				}
			})
			if !simple || len(read) < 2 {
				continue
			}
			n++
			key := "fn=" + fname(fn)
			var missing []string
			for _, h := range holders {
				if !read[h] {
					missing = append(missing, h)
				}
			}
			if len(missing) > 0 {
				r.violation("IDX-EMPTY-ALL", key, w.Pos(fn.Pos()), "this emptiness test of an index node does not look at `"+strings.Join(missing, "`, `")+"`: a node that still has rules under that branch counts as empty and is pruned")
			} else {
				r.ok("IDX-EMPTY-ALL", key, w.Pos(fn.Pos()), "looks at every branch of the node")
			}
		}
		if n == 0 {
			r.ok("IDX-EMPTY-ALL", "type=core.PatternIndex", w.Pos(pi.Obj().Pos()), "no emptiness test of an index node: nothing is pruned by one")
		}
	}
}

// LOOP-SCRATCH (C03, C04, C14): a map that serves every round of a loop is emptied for each.
func ruleLoopScratch(prop string) ruleFn {
	return func(w *World, r *Report) {
		r.Rule("LOOP-SCRATCH", "in core, a map that lives across the rounds of a loop (it is made before the loop, or once inside it under a `== nil` test), is filled in each round from a map that belongs to that round (a nested `for k, v := range thisRound { m[k] = v }`) and is then handed to a call in the same round, is emptied in the loop (`delete` under a range over it) — or made per round.  Overwriting is not emptying: what an earlier round put in under a key that this round does not have is still there, and the callee (a script, a sub-query) sees bindings of another candidate", 0)
		n := 0
		for _, fn := range w.Funcs {
			if w.RelPkg(fn) != "core" || isTestFile(w, fn) || len(fn.Blocks) == 0 {
				continue
			}
			loops := naturalLoops(fn)
			if len(loops) < 2 {
				continue
			}
			for _, L := range loops {
				// maps carried round the loop: phi closure of the map operand reaches a phi in L's header
				carried := func(m ssa.Value) bool {
					seen := map[ssa.Value]bool{}
					var rec func(v ssa.Value) bool
					rec = func(v ssa.Value) bool {
						if seen[v] {
							return false
						}
						seen[v] = true
						switch x := v.(type) {
						case *ssa.Phi:
							if x.Block() == L.Header {
								return true
							}
							for _, e := range x.Edges {
								if rec(e) {
									return true
								}
							}
						case *ssa.ChangeType:
							return rec(x.X)
						case *ssa.MakeMap:
							return !L.Body[x.Block()]
						case *ssa.UnOp:
							// a local slot assigned before the loop
							if a, ok := x.X.(*ssa.Alloc); ok && !L.Body[a.Block()] {
								return true
							}
						}
						return false
					}
					return rec(m)
				}
				alias := func(a, b ssa.Value) bool {
					// same map up to phis
					set := map[ssa.Value]bool{}
					var grow func(v ssa.Value)
					grow = func(v ssa.Value) {
						if set[v] {
							return
						}
						set[v] = true
						switch x := v.(type) {
						case *ssa.Phi:
							for _, e := range x.Edges {
								grow(e)
							}
						case *ssa.ChangeType:
							grow(x.X)
						case *ssa.UnOp:
							// the variable's slot (its address is taken: a pointer-receiver method is called on it)
							if al, isA := x.X.(*ssa.Alloc); isA && x.Op == token.MUL {
								grow(al)
							}
						}
					}
					grow(a)
					sb := map[ssa.Value]bool{}
					set, sb = sb, set
					grow(b)
					for v := range set {
						if sb[v] {
							if _, isC := v.(*ssa.Const); !isC {
								return true
							}
						}
					}
					return false
				}
				for b := range L.Body {
					for _, in := range b.Instrs {
						mu, ok := in.(*ssa.MapUpdate)
						if !ok || !carried(mu.Map) {
							continue
						}
						// filled from a map of this round: the key comes out of a range (in a nested loop) over a value made in L
						perRound := dependsOn(mu.Key, func(v ssa.Value) bool {
							nx, ok := v.(*ssa.Next)
							if !ok {
								return false
							}
							rg, ok := nx.Iter.(*ssa.Range)
							if !ok || !L.Body[rg.Block()] {
								return false
							}
							if _, isMap := rg.X.Type().Underlying().(*types.Map); !isMap {
								return false
							}
							if alias(rg.X, mu.Map) {
								return false
							}
							in2, isI := rg.X.(ssa.Instruction)
							return isI && L.Body[in2.Block()]
						})
						if !perRound {
							continue
						}
						// handed to a call in the loop
						used := false
						emptied := false
						for b2 := range L.Body {
							for _, in2 := range b2.Instrs {
								c := callOf(in2)
								if c == nil {
									continue
								}
								if bi, isB := c.Value.(*ssa.Builtin); isB {
									if (bi.Name() == "delete" || bi.Name() == "clear") && len(c.Args) > 0 && alias(c.Args[0], mu.Map) {
										emptied = true
									}
									continue
								}
								for _, a := range c.Args {
									x := a
									if mi, isMI := x.(*ssa.MakeInterface); isMI {
										x = mi.X
									}
									_, isMap := x.Type().Underlying().(*types.Map)
									if pt, isP := x.Type().Underlying().(*types.Pointer); isP {
										_, isMap = pt.Elem().Underlying().(*types.Map)
									}
									if isMap && alias(x, mu.Map) {
										if f := c.StaticCallee(); f == nil || f.Name() != "Log" {
											used = true
										}
									}
								}
							}
						}
						if !used {
							continue
						}
						n++
						key := "fn=" + fname(fn) + " map#" + itoa(n)
						if emptied {
							r.ok("LOOP-SCRATCH", key, w.PosOf(in), "one map for every round, emptied in the loop")
						} else {
							r.violation("LOOP-SCRATCH", "fn="+fname(fn), w.PosOf(in), "one map serves every round of the loop, is filled from this round's map and handed on, and is never emptied: keys of an earlier round that this round does not have are still in it")
						}
					}
				}
			}
		}
		if n == 0 {
			r.ok("LOOP-SCRATCH", "pkg=core", "", "no map that is carried round a loop is filled from a per-round map and handed to a call")
		}
	}
}

// TIMER-RECYCLE (C14): a timer that goes back into a pool takes no tick with it.
func ruleTimerRecycle(w *World, r *Report) {
	r.Rule("TIMER-RECYCLE", "a time.Timer that is used again (put back into a sync.Pool, or Reset later) can have fired between the moment its user stopped listening and the moment it is stopped: the tick then waits in the channel, and the next user — the watchdog of another script — sees its time-out expire at once.  In a function that stops a timer and hands it to sync.Pool.Put, the result of Stop is therefore looked at, and a receive from the timer's channel hangs on it (`if !t.Stop() { select { case <-t.C: default: } }`)", 0)
	n := 0
	for _, fn := range w.Funcs {
		if !w.IsRulio(fn) || isTestFile(w, fn) || len(fn.Blocks) == 0 {
			continue
		}
		var puts []ssa.Value
		allInstrs(fn, func(in ssa.Instruction) {
			c := callOf(in)
			if c == nil || c.StaticCallee() == nil || c.StaticCallee().Pkg == nil || c.StaticCallee().Pkg.Pkg.Path() != "sync" || c.StaticCallee().Name() != "Put" || len(c.Args) != 2 {
				return
			}
			v := c.Args[1]
			if mi, ok := v.(*ssa.MakeInterface); ok {
				v = mi.X
			}
			if nn := namedOf(v.Type()); nn != nil && typeKey(nn) == "time.Timer" {
				puts = append(puts, cellOf(v))
			}
		})
		if len(puts) == 0 {
			continue
		}
		allInstrs(fn, func(in ssa.Instruction) {
			c := callOf(in)
			if c == nil || c.StaticCallee() == nil || c.StaticCallee().Pkg == nil || c.StaticCallee().Pkg.Pkg.Path() != "time" || c.StaticCallee().Name() != "Stop" || len(c.Args) != 1 {
				return
			}
			if _, isDefer := in.(*ssa.Defer); isDefer {
				return
			}
			t := cellOf(c.Args[0])
			pooled := false
			for _, p := range puts {
				if sameValue(p, t) {
					pooled = true
				}
			}
			if !pooled {
				return
			}
			n++
			key := "fn=" + fname(fn) + " stop#" + itoa(n)
			res, isVal := in.(ssa.Value)
			drained := false
			if isVal && res.Referrers() != nil && len(*res.Referrers()) > 0 {
				allInstrs(fn, func(x ssa.Instruction) {
					isRecv := false
					switch y := x.(type) {
					case *ssa.UnOp:
						if y.Op == token.ARROW {
							if _, f, base, ok := fieldOf(addrOfLoad(y.X)); ok && f == "C" && sameValue(cellOf(base), t) {
								isRecv = true
							}
						}
					case *ssa.Select:
						for _, st := range y.States {
							if st.Dir == types.RecvOnly {
								if _, f, base, ok := fieldOf(addrOfLoad(st.Chan)); ok && f == "C" && sameValue(cellOf(base), t) {
									isRecv = true
								}
							}
						}
					}
					if isRecv && controlDependsOn(fn, x, func(v ssa.Value) bool { return dependsOn(v, func(z ssa.Value) bool { return z == res }) }) {
						drained = true
					}
				})
			}
			if drained {
				r.ok("TIMER-RECYCLE", key, w.PosOf(in), "the result of Stop is tested and a pending tick is taken out")
			} else {
				r.violation("TIMER-RECYCLE", "fn="+fname(fn), w.PosOf(in), "the timer is stopped and put back into the pool without looking at what Stop said: a tick that was sent in the meantime stays in the channel, and the next script that gets this timer is interrupted at once")
			}
		})
	}
	if n == 0 {
		r.ok("TIMER-RECYCLE", "scope=rulio", "", "no timer is recycled through a pool")
	}
}

// cellOf: a captured variable stands for all its loads.
func cellOf(v ssa.Value) ssa.Value {
	v = resolveSpill(v)
	if u, ok := v.(*ssa.UnOp); ok && u.Op == token.MUL {
		if fv, isF := u.X.(*ssa.FreeVar); isF {
			return fv
		}
		if al, isA := u.X.(*ssa.Alloc); isA {
			return al
		}
	}
	return v
}

// addrOfLoad: for a value loaded from a field (`*(&t.C)`), the field's address.
func addrOfLoad(v ssa.Value) ssa.Value {
	if u, ok := v.(*ssa.UnOp); ok && u.Op == token.MUL {
		return u.X
	}
	return v
}

// LIMIT-REFUSES (C18): a limit on what is read of a request refuses what is longer; it does not cut it.
func ruleLimitRefuses(w *World, r *Report) {
	r.Rule("LIMIT-REFUSES", "where the service layer reads a request through io.LimitReader, the function that does so also compares the length of what it read with the limit it gave (one side of a comparison derives from `len`, the other from the value the limit derives from): a body that is simply cut at the limit is handed on as if it were the request — the first megabyte of a fact, or a prefix that happens to parse — instead of being refused", 0)
	n := 0
	for _, fn := range w.Funcs {
		if p := w.RelPkg(fn); (p != "service" && p != "core") || isTestFile(w, fn) || len(fn.Blocks) == 0 {
			continue
		}
		allInstrs(fn, func(in ssa.Instruction) {
			c := callOf(in)
			if c == nil || c.StaticCallee() == nil || c.StaticCallee().Pkg == nil || c.StaticCallee().Pkg.Pkg.Path() != "io" || c.StaticCallee().Name() != "LimitReader" || len(c.Args) != 2 {
				return
			}
			n++
			key := "fn=" + fname(fn) + " limit#" + itoa(n)
			sources := func(v ssa.Value) map[string]bool {
				out := map[string]bool{}
				dependsOn(v, func(x ssa.Value) bool {
					switch y := x.(type) {
					case *ssa.Global:
						out["g:"+y.Name()] = true
					case *ssa.Parameter:
						out["p:"+y.Name()] = true
					case *ssa.FieldAddr:
						if _, f, _, ok := fieldOf(y); ok {
							out["f:"+f] = true
						}
					}
					return false
				})
				return out
			}
			lim := sources(c.Args[1])
			if cst, isC := c.Args[1].(*ssa.Const); isC && cst.Value != nil {
				lim["c:"+cst.Value.ExactString()] = true
			}
			isLen := func(v ssa.Value) bool {
				return dependsOn(v, func(x ssa.Value) bool {
					cc, ok := x.(*ssa.Call)
					if !ok {
						return false
					}
					b, ok := cc.Common().Value.(*ssa.Builtin)
					return ok && b.Name() == "len"
				})
			}
			sharesLimit := func(v ssa.Value) bool {
				for s := range sources(v) {
					if lim[s] {
						return true
					}
				}
				if cst, isC := v.(*ssa.Const); isC && cst.Value != nil && lim["c:"+cst.Value.ExactString()] {
					return true
				}
				return false
			}
			compared := false
			allInstrs(fn, func(x ssa.Instruction) {
				b, ok := x.(*ssa.BinOp)
				if !ok {
					return
				}
				switch b.Op {
				case token.LSS, token.GTR, token.LEQ, token.GEQ, token.EQL, token.NEQ:
				default:
					return
				}
				if (isLen(b.X) && sharesLimit(b.Y)) || (isLen(b.Y) && sharesLimit(b.X)) {
					compared = true
				}
			})
			if compared {
				r.ok("LIMIT-REFUSES", key, w.PosOf(in), "the length of what was read is compared with the limit")
			} else {
				r.violation("LIMIT-REFUSES", "fn="+fname(fn), w.PosOf(in), "the request is read through a LimitReader and nothing compares the length of what came out with the limit: a longer body is cut and processed as if it were complete")
			}
		})
	}
	if n == 0 {
		r.ok("LIMIT-REFUSES", "scope=service,core", "", "no request is read through io.LimitReader")
	}
}

// KEYS-OWN-CTX (C18, C19): keys are put on a context of the request's own.
func ruleKeysOwnCtx(prop string) ruleFn {
	return func(w *World, r *Report) {
		r.Rule("KEYS-OWN-CTX", "a Context can serve several requests (the elements of a batch share theirs; concurrent actions and cron ticks are handed sub-contexts of one).  ReadKey and WriteKey are therefore only ever written on a context that the writing function made itself — the result of SubContext / NewContext or a Context it allocated — never on one it was handed: keys that one request presents stay on a shared context for the requests that follow, which then pass gates they have no key for", 1)
		n := 0
		for _, fn := range w.Funcs {
			if !w.IsRulio(fn) || isTestFile(w, fn) || len(fn.Blocks) == 0 {
				continue
			}
			if p := w.RelPkg(fn); strings.HasPrefix(p, "tools") || strings.HasPrefix(p, "examples") {
				continue
			}
			allInstrs(fn, func(in ssa.Instruction) {
				st, ok := in.(*ssa.Store)
				if !ok {
					return
				}
				nn, f, base, ok := fieldOf(st.Addr)
				if !ok || typeKey(nn) != "core.Context" || (f != "ReadKey" && f != "WriteKey") {
					return
				}
				n++
				key := "fn=" + fname(fn) + " field=" + f
				own := false
				foreign := false
				seen := map[ssa.Value]bool{}
				var walk func(v ssa.Value)
				walk = func(v ssa.Value) {
					if seen[v] {
						return
					}
					seen[v] = true
					switch x := v.(type) {
					case *ssa.Alloc:
						own = true // the Context itself, made here
					case *ssa.Call:
						own = true
					case *ssa.Parameter, *ssa.FreeVar, *ssa.Global:
						foreign = true
					case *ssa.Phi:
						for _, e := range x.Edges {
							walk(e)
						}
					case *ssa.ChangeType:
						walk(x.X)
					case *ssa.UnOp:
						// a pointer variable kept in a slot: whatever was assigned to it
						if cell, isA := x.X.(*ssa.Alloc); isA && x.Op == token.MUL {
							for _, ref := range *cell.Referrers() {
								if s2, isS := ref.(*ssa.Store); isS && s2.Addr == ssa.Value(cell) {
									walk(s2.Val)
								}
							}
						} else {
							foreign = true
						}
					default:
						foreign = true
					}
				}
				walk(base)
				if own && !foreign {
					r.ok("KEYS-OWN-CTX", key, w.PosOf(in), "written on a context made in this function")
				} else {
					r.violation("KEYS-OWN-CTX", key, w.PosOf(in), "a key is written on a context that this function was handed: whoever else works with that context (the other elements of a batch, the next request on it) presents this request's keys")
				}
			})
		}
		if n == 0 {
			r.exempt("KEYS-OWN-CTX", "scope=rulio", "", "no store into Context.ReadKey / WriteKey found: shape not recognised, not decided")
		}
	}
}

// CODE-BINDINGS-OWN (C03, C04): a condition's script works on its own copy of the bound values.
func ruleCodeBindingsOwn(prop string) ruleFn {
	return func(w *World, r *Report) {
		r.Rule("CODE-BINDINGS-OWN", "a `code` condition keeps or drops a binding; it does not change it.  The script runtime works in place on the Go maps it is handed, so where a query term hands bindings to RunJavascript, the map it hands over is made for that run and its values went through core.Copy: otherwise `c.count = (c.count||0)+1` in a condition changes the bound object for every sibling binding that shares it and for the terms and actions that come after (the same defect as ACTION-BINDINGS-OWN, one call site over)", 1)
		rj := w.Func("core", "RunJavascript")
		cp := w.Func("core", "Copy")
		n := 0
		for _, fn := range w.Funcs {
			if w.RelPkg(fn) != "core" || isTestFile(w, fn) || len(fn.Blocks) == 0 || !strings.Contains(fname(fn), "Query") {
				continue
			}
			allInstrs(fn, func(in ssa.Instruction) {
				c := callOf(in)
				if c == nil || c.StaticCallee() != rj || len(c.Args) < 2 {
					return
				}
				// the maps made in this function that reach the script's bindings
				var made []*ssa.MakeMap
				allInstrs(fn, func(x ssa.Instruction) {
					mk, ok := x.(*ssa.MakeMap)
					if !ok {
						return
					}
					reaches := dependsOn(c.Args[1], func(v ssa.Value) bool { return v == ssa.Value(mk) })
					if !reaches {
						// through the variable's slot (a pointer-receiver method is called on it)
						for _, ref := range *mk.Referrers() {
							if st, isS := ref.(*ssa.Store); isS && st.Val == ssa.Value(mk) {
								if dependsOn(c.Args[1], func(v ssa.Value) bool { return v == st.Addr }) {
									reaches = true
								}
							}
						}
					}
					if reaches {
						made = append(made, mk)
					}
				})
				n++
				key := "fn=" + fname(fn) + " script-bindings#" + itoa(n)
				if len(made) == 0 {
					r.violation("CODE-BINDINGS-OWN", key, w.PosOf(in), "the script is handed bindings that were not made for this run: what it writes, the query's other terms and the rule's actions see")
					return
				}
				bad := ""
				for _, mk := range made {
					upd := func(mu *ssa.MapUpdate) {
						if !dependsOn(mu.Value, func(v ssa.Value) bool {
							cc, ok := v.(*ssa.Call)
							return ok && cc.Common().StaticCallee() == cp
						}) {
							bad = w.PosOf(mu)
						}
					}
					for _, ref := range *mk.Referrers() {
						if mu, ok := ref.(*ssa.MapUpdate); ok && mu.Map == ssa.Value(mk) {
							upd(mu)
						}
						if st, isS := ref.(*ssa.Store); isS && st.Val == ssa.Value(mk) {
							// updates through loads of the slot
							if al, isA := st.Addr.(*ssa.Alloc); isA {
								for _, r2 := range *al.Referrers() {
									if ld, isL := r2.(*ssa.UnOp); isL && ld.Op == token.MUL {
										for _, r3 := range *ld.Referrers() {
											if mu, ok := r3.(*ssa.MapUpdate); ok && mu.Map == ssa.Value(ld) {
												upd(mu)
											}
										}
									}
								}
							}
						}
					}
				}
				if bad != "" {
					r.violation("CODE-BINDINGS-OWN", key, bad, "the script's map is its own, the values in it are the incoming bindings' own objects (no core.Copy on the way): a condition that writes to a bound object changes it for the sibling bindings, the later terms and the actions")
				} else {
					r.ok("CODE-BINDINGS-OWN", key, w.PosOf(in), "a map made for the run, values copied")
				}
			})
		}
		if n == 0 {
			r.exempt("CODE-BINDINGS-OWN", "scope=core queries", "", "no query term calls RunJavascript: shape not recognised, not decided")
		}
	}
}

// LIST-TOLERANT (C13): one odd stored fact does not take a listing down.
func ruleListTolerant(w *World, r *Report) {
	r.Rule("LIST-TOLERANT", "AddFact stores any JSON object, `{\"rule\":5}` included.  An exported method of core.Location that walks the results of a search and returns a list therefore makes up no error of its own inside that walk (an fmt.Errorf / errors.New in the loop over the found facts that reaches the method's error result): what one stored fact looks like would otherwise fail the listing for everything else that is stored, for as long as the fact is there (`Wanted a string but got 5` from ListRules).  The odd one is skipped", 1)
	a := newLocAnchors(w)
	n := 0
	for _, fn := range a.exportedLocationMethods() {
		if !strings.HasPrefix(fn.Name(), "List") || errorResultIndex(fn.Signature) < 0 {
			continue
		}
		loops := naturalLoops(fn)
		if len(loops) == 0 {
			continue
		}
		n++
		key := "fn=" + fname(fn)
		idx := errorResultIndex(fn.Signature)
		bad := ""
		allInstrs(fn, func(in ssa.Instruction) {
			c, ok := in.(*ssa.Call)
			if !ok || c.Common().StaticCallee() == nil || c.Common().StaticCallee().Pkg == nil {
				return
			}
			f := c.Common().StaticCallee()
			if !((f.Pkg.Pkg.Path() == "fmt" && f.Name() == "Errorf") || (f.Pkg.Pkg.Path() == "errors" && f.Name() == "New")) {
				return
			}
			inLoop := false
			for _, l := range loops {
				if l.Body[c.Block()] {
					inLoop = true
				}
			}
			if !inLoop {
				return
			}
			// does it reach the error result?
			allInstrs(fn, func(x ssa.Instruction) {
				ret, isRet := x.(*ssa.Return)
				if !isRet || idx >= len(ret.Results) {
					return
				}
				if dependsOn(ret.Results[idx], func(v ssa.Value) bool { return v == ssa.Value(c) }) {
					bad = w.PosOf(in)
				}
			})
		})
		if bad != "" {
			r.violation("LIST-TOLERANT", key, bad, "the listing makes up an error for a stored fact it does not like and returns it for the whole list: one odd fact and nothing can be listed any more")
		} else {
			r.ok("LIST-TOLERANT", key, w.Pos(fn.Pos()), "no error of the listing's own inside the walk over the found facts")
		}
	}
	if n == 0 {
		r.exempt("LIST-TOLERANT", "scope=Location.List*", "", "no listing method with a loop found: shape not recognised, not decided")
	}
}
