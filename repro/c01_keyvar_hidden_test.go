package core

// Run-time confirmation for the C01 finding IDX-KEYVAR (copy into core/ of a scratch copy):
//
//   go test -mod=mod -vet=off -count=1 -run TestVerifKeyVarHidden ./core/
//
// PatternIndex.searchPairs tried the branch for patterns with a variable in key position only when the event's key
// was not a literal key of the node: with rules {"a":1} and {"?p":2}, the event {"a":2} dispatched nothing in an
// IndexedState (LinearState dispatches the second rule with ?p = "a").

import "testing"

func TestVerifKeyVarHidden(t *testing.T) {
	for _, linear := range []bool{true, false} {
		ctx := NewContext("repro")
		store, _ := NewMemStorage(ctx)
		var state State
		if linear {
			state, _ = NewLinearState(ctx, "h", store)
		} else {
			state, _ = NewIndexedState(ctx, "h", store)
		}
		loc, err := NewLocation(ctx, "h", state, nil)
		if err != nil {
			t.Fatal(err)
		}
		for id, pat := range map[string]map[string]interface{}{"lit": {"a": 1.0}, "var": {"?p": 2.0}} {
			rule := Map{"when": map[string]interface{}{"pattern": pat}, "action": map[string]interface{}{"code": "1"}}
			if _, err := loc.AddRule(ctx, id, rule); err != nil {
				t.Fatal(err)
			}
		}
		fr, cond := loc.ProcessEvent(ctx, Map{"a": 2.0})
		if cond != nil {
			t.Fatal(cond.Msg)
		}
		if len(fr.Children) != 1 {
			t.Errorf("linear=%v: %d rules evaluated for the event {a:2}, wanted 1 (the rule {?p:2})", linear, len(fr.Children))
		}
	}
}
