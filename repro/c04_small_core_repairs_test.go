package core

// Run-time confirmation for RAND-GUARD (C13 C04), MARSHAL-PURE (C12 C04) and CODE-RESULT-MAP (C03), all reported by round-6
// sub-agents (copy into core/ of a scratch copy):
//
//   go test -mod=mod -vet=off -count=1 -run TestVerifSmallCore ./core/
//   go test -mod=mod -vet=off -count=1 -race -run TestVerifSmallCoreMarshal ./core/     (the race detector reports it)

import (
	"encoding/json"
	"sync"
	"testing"
)

// A service with an empty URL list: rand.Intn(0) panicked in ResolveService, outside the script engine's recover.
func TestVerifSmallCoreResolveServiceEmpty(t *testing.T) {
	ctx := NewContext("repro")
	store, _ := NewMemStorage(ctx)
	state, _ := NewIndexedState(ctx, "h", store)
	loc, err := NewLocation(ctx, "h", state, nil)
	if err != nil {
		t.Fatal(err)
	}
	c := *loc.Control()
	c.Services = map[string][]string{"nowhere": {}}
	loc.SetControl(&c)
	defer func() {
		if x := recover(); x != nil {
			t.Fatalf("ResolveService panicked: %v", x)
		}
	}()
	if url, err := loc.ResolveService(ctx, "nowhere"); err == nil {
		t.Errorf("a service without URLs resolved to %q", url)
	}
}

// Rendering the work of an event wrote `Action = nil` into the cached rule that all events share.
func TestVerifSmallCoreMarshalSharedRule(t *testing.T) {
	rule, err := RuleFromJSON(NewContext("repro"), []byte(`{"when":{"pattern":{"a":"?x"}},"action":{"code":"1"}}`))
	if err != nil {
		t.Fatal(err)
	}
	had := rule.Action != nil
	var wg sync.WaitGroup
	for i := 0; i < 4; i++ {
		wg.Add(1)
		go func() {
			defer wg.Done()
			if _, err := json.Marshal((*CleanRule)(rule)); err != nil {
				t.Error(err)
			}
		}()
	}
	wg.Wait()
	if had != (rule.Action != nil) {
		t.Errorf("rendering the rule changed it (Action was set: %v, is set: %v)", had, rule.Action != nil)
	}
}

// {"code":"event"}: the script gives back the Map it was given; its members were not merged into the bindings.
func TestVerifSmallCoreCodeReturnsMap(t *testing.T) {
	ctx := NewContext("repro")
	store, _ := NewMemStorage(ctx)
	state, _ := NewIndexedState(ctx, "h", store)
	loc, err := NewLocation(ctx, "h", state, nil)
	if err != nil {
		t.Fatal(err)
	}
	q := CodeQuery{Code: "event"}
	in := QueryResult{Bss: []Bindings{{"?event": Map{"n": 1.0}}}}
	out, err := q.Exec(ctx, loc, QueryContext{}, in)
	if err != nil {
		t.Fatal(err)
	}
	if len(out.Bss) != 1 {
		t.Fatalf("%d binding sets", len(out.Bss))
	}
	if _, have := out.Bss[0]["?n"]; !have {
		t.Errorf("the Map the script returned was not merged: %v", out.Bss[0])
	}
}
