package core

// Run-time confirmation for the C06/C15 finding HOOK-BEFORE-STORE (copy into core/ of a scratch copy):
//
//   go test -mod=mod -vet=off -count=1 -run TestVerifLinearHookAfterStore ./core/
//
// LinearState.Add wrote storage before it asked the add hook.  A fact the hook refused (e.g. a rule whose schedule
// the cron cannot parse) was reported as refused, was not in memory, but was in storage: a reloaded location has it,
// and a load that runs the hook fails on it.

import (
	"errors"
	"testing"
)

func TestVerifLinearHookAfterStore(t *testing.T) {
	ctx := NewContext("repro")
	store, _ := NewMemStorage(ctx)
	state, _ := NewLinearState(ctx, "h", store)
	refuse := func(ctx *Context, s State, id string, fact Map, loading bool) error {
		if _, is := fact["rule"]; is {
			return errors.New("refused")
		}
		return nil
	}
	state.AddHook(refuse)
	loc, err := NewLocation(ctx, "h", state, nil)
	if err != nil {
		t.Fatal(err)
	}
	if _, err := loc.AddRule(ctx, "r", Map{"schedule": "nonsense", "action": map[string]interface{}{"code": "1"}}); err == nil {
		t.Fatal("the hook refuses, AddRule should fail")
	}
	pairs, err := store.Load(ctx, "h")
	if err != nil {
		t.Fatal(err)
	}
	if len(pairs) != 0 {
		t.Errorf("the refused rule is in storage: %d pair(s)", len(pairs))
	}
	state2, _ := NewLinearState(ctx, "h", store)
	state2.AddHook(refuse)
	if _, err := NewLocation(ctx, "h", state2, nil); err != nil {
		t.Errorf("the location cannot be loaded any more: %v", err)
	}
}
