package sys

// Run-time confirmation for the C17 finding ENTRY-HANDOVER (copy to sys/ of a scratch copy of the repository):
//
//   go test -mod=mod -vet=off -count=1 -run TestC17OpenWindow ./sys/
//
// CachedLocations.Open publishes a new cache entry in the table, releases the table lock and only then (inside
// CachedLocation.Get, after a log call) takes the entry's lock.  A second first-request that runs in that window
// finds the entry unlocked and not loaded yet (Location == nil), takes that for "no entry", publishes a second
// entry and loads a second instance.  The first request then works on an instance nobody else will ever see:
// with TTL forever its acknowledged write is missing from every later answer.
//
// The window is made deterministic with a LogHook (an injectable field of core.Context) that parks request A at
// the log record that CachedLocation.Get emits before it locks the entry.

import (
	"os"
	"sync"
	"testing"
	"time"

	. "github.com/Comcast/rulio/core"
	"github.com/Comcast/rulio/cron"
)

type c17GateLogger struct {
	op      string
	arrived chan struct{}
	release chan struct{}
	once    sync.Once
}

func (l *c17GateLogger) Log(level LogLevel, args ...interface{}) {
	if len(args) > 1 {
		if op, ok := args[1].(string); ok && op == l.op {
			l.once.Do(func() {
				close(l.arrived)
				<-l.release
			})
		}
	}
}
func (l *c17GateLogger) Metric(name string, args ...interface{}) {}

type c17LoadCounter struct {
	Storage
	mu    sync.Mutex
	loads int
}

func (s *c17LoadCounter) Load(ctx *Context, loc string) ([]Pair, error) {
	s.mu.Lock()
	s.loads++
	s.mu.Unlock()
	return s.Storage.Load(ctx, loc)
}

func TestC17OpenWindow(t *testing.T) {
	os.Setenv("RULES_CRON_OVERRIDE", "1")
	conf := ExampleConfig()
	cont := ExampleSystemControl()
	cont.LocationTTL = Forever
	cont.DefaultLocControl = &Control{MaxFacts: 1000, Verbosity: NOTHING, NoTiming: true}
	cr, _ := cron.NewCron(nil, time.Second, "intcron", 1000000)
	sys, err := NewSystem(BenchContext("c17"), *conf, *cont, &cron.InternalCron{Cron: cr})
	if err != nil {
		t.Fatal(err)
	}
	mem, _ := NewMemStorage(BenchContext("c17"))
	store := &c17LoadCounter{Storage: mem}
	sys.storage = store
	location := "home"

	// request A: the very first request for the location; parked between publishing the entry and locking it
	gate := &c17GateLogger{op: "CachedLocation.Get", arrived: make(chan struct{}), release: make(chan struct{})}
	ctxA := BenchContext("A")
	ctxA.Verbosity = EVERYTHING
	ctxA.LogHook = gate.Log
	DefaultLogger = BenchLogger
	doneA := make(chan error, 1)
	go func() {
		_, err := sys.AddFact(ctxA, location, "fa", `{"from":"A"}`)
		doneA <- err
	}()
	select {
	case <-gate.arrived:
	case <-time.After(5 * time.Second):
		t.Fatal("request A did not reach CachedLocation.Get")
	}
	// request B: a concurrent first request; completes
	if _, err := sys.AddFact(BenchContext("B"), location, "fb", `{"from":"B"}`); err != nil {
		t.Fatal(err)
	}
	close(gate.release)
	if err := <-doneA; err != nil {
		t.Fatalf("request A failed: %v", err)
	}
	// both writes were acknowledged; a request that starts afterwards must see both
	t.Logf("loads of %q from storage: %d", location, store.loads)
	if store.loads != 1 {
		t.Errorf("the location was loaded %d times by two concurrent first requests (wanted once, one shared instance)", store.loads)
	}
	for _, id := range []string{"fa", "fb"} {
		js, err := sys.GetFact(BenchContext("C"), location, id)
		if err != nil || js == "" {
			t.Errorf("GetFact(%s) after both writes were acknowledged: %q, %v: the cache serves an instance that misses an acknowledged write", id, js, err)
		}
	}
}
