package core

// Run-time confirmation for the C01 finding SCHED-AGREE (copy into core/ of a scratch copy):
//
//   go test -mod=mod -vet=off -count=1 -run TestVerifEmptySchedule ./core/
//
// RuleFromJSON (and the cron hooks) take an empty `schedule` for no schedule; IndexedState.add tested only for the
// presence of the key and never indexed such a rule: it was stored, listed, and never dispatched (LinearState
// dispatched it).

import "testing"

func TestVerifEmptySchedule(t *testing.T) {
	for _, linear := range []bool{true, false} {
		ctx := NewContext("repro")
		store, _ := NewMemStorage(ctx)
		var state State
		if linear {
			state, _ = NewLinearState(ctx, "h", store)
		} else {
			state, _ = NewIndexedState(ctx, "h", store)
		}
		loc, err := NewLocation(ctx, "h", state, nil)
		if err != nil {
			t.Fatal(err)
		}
		rule := Map{"schedule": "", "when": map[string]interface{}{"pattern": map[string]interface{}{"ping": "?x"}}, "action": map[string]interface{}{"code": "1"}}
		if _, err := loc.AddRule(ctx, "r", rule); err != nil {
			t.Fatal(err)
		}
		fr, cond := loc.ProcessEvent(ctx, Map{"ping": "pong"})
		if cond != nil {
			t.Fatal(cond.Msg)
		}
		if len(fr.Children) != 1 {
			t.Errorf("linear=%v: %d rules evaluated for the matching event, wanted 1", linear, len(fr.Children))
		}
	}
}
