package core

// Run-time confirmation for the C19 findings GATE-PARENTS and GATE-COUNT (tests by the round-4 C19 sub-agent; copy into
// core/ of a scratch copy):
//
//   go test -mod=mod -vet=off -count=1 -run TestVerifParentsSizeGates ./core/
//
// Location.GetParents handed out the parent set (the stored property `!.parents`) without the read key;
// Location.StateSize answered in a disabled location.

import "testing"

func TestVerifParentsSizeGates(t *testing.T) {
	owner := NewContext("owner")
	loc, err := NewLocation(owner, "u5", nil, nil)
	if err != nil {
		t.Fatal(err)
	}
	if _, err := loc.SetParents(owner, []string{"secretparent"}); err != nil {
		t.Fatal(err)
	}
	if _, err := loc.AddFact(owner, "", Map{"!readKey": "R"}); err != nil {
		t.Fatal(err)
	}
	stranger := NewContext("stranger")
	if ps, err := loc.GetParents(stranger); err == nil {
		t.Errorf("GetParents without the read key revealed %v", ps)
	}
	owner.ReadKey = "R"
	if ps, err := loc.GetParents(owner); err != nil || len(ps) != 1 {
		t.Errorf("GetParents with the read key: %v %v", ps, err)
	}

	loc2, err := NewLocation(owner, "u7", nil, nil)
	if err != nil {
		t.Fatal(err)
	}
	if _, err := loc2.AddFact(owner, "", Map{"!enabled": "false"}); err != nil {
		t.Fatal(err)
	}
	if n, err := loc2.StateSize(owner); err == nil {
		t.Errorf("StateSize in a disabled location was not refused (%d)", n)
	}
}
