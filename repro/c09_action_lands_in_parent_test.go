// Run-time confirmation for the C09 finding CTX-SCRIPT (test by the round-5 C09 sub-agent; copy into core/ of a scratch
// copy):
//
//   go test -mod=mod -vet=off -count=1 -run TestC09U1ActionLandsInParent ./core/
//
// The script environment (Env.AddFact, ...) works on ctx.GetLoc().  An inherited search that fails in a parent leaves the
// context at that parent, and the next script of the same event wrote into the parent: an event for C added a fact to P.
package core

import "testing"

func c09uLocation(t *testing.T, ctx *Context, name string, linear bool, locs map[string]*Location) *Location {
	store, _ := NewMemStorage(ctx)
	var state State
	if linear {
		state, _ = NewLinearState(ctx, name, store)
	} else {
		state, _ = NewIndexedState(ctx, name, store)
	}
	loc, err := NewLocation(ctx, name, state, nil)
	if err != nil {
		t.Fatal(err)
	}
	loc.Provider = NewSimpleLocationProvider(locs)
	locs[name] = loc
	return loc
}

// U1.  In-process Javascript (conditions and actions) gets its
// Env.AddFact, Env.RemFact, Env.AddRule, ... from ctx.GetLoc() (see
// RunJavascript), not from the location that processes the event.  An
// inherited search that fails in a parent leaves ctx.GetLoc() at that
// parent (searchFacts did ctx.SetLoc(parent)), so the next piece of
// Javascript of the same event works on the PARENT: an event sent to
// the child writes into the parent.
func TestC09U1ActionLandsInParent(t *testing.T) {
	for _, linear := range []bool{false, true} {
		ctx := BenchContext("c09u1")
		locs := make(map[string]*Location)
		p := c09uLocation(t, ctx, "P", linear, locs)
		c := c09uLocation(t, ctx, "C", linear, locs)

		if _, err := p.AddFact(ctx, "pf", Map{"b": 2}); err != nil {
			t.Fatal(err)
		}
		if _, err := c.SetParents(ctx, []string{"P"}); err != nil {
			t.Fatal(err)
		}

		// The condition's search uses a pattern that the matcher
		// refuses as soon as it is tried against a fact (a property
		// variable next to another property).  The parent is
		// searched first, and has such a fact.
		rule := mapJS(`
{"when":{"pattern":{"go":"?x"}},
 "condition":{"code":"try { Env.Search({'?v':1,'b':2}); } catch (e) {}; true"},
 "action":{"code":"Env.AddFact('planted',{planted:'by an event for C'}); 1"}}`)
		if _, err := c.AddRule(ctx, "r", rule); err != nil {
			t.Fatal(err)
		}

		before, err := p.SearchFacts(ctx, Map{"planted": "?x"}, false)
		if err != nil {
			t.Fatal(err)
		}

		if _, cond := c.ProcessEvent(ctx, mapJS(`{"go":"now"}`)); cond != nil {
			t.Fatalf("linear=%v: event: %v", linear, cond)
		}

		after, err := p.SearchFacts(ctx, Map{"planted": "?x"}, false)
		if err != nil {
			t.Fatal(err)
		}
		if len(before.Found) != len(after.Found) {
			t.Errorf("linear=%v: an event for C changed what P returns: %d -> %d facts (%v)",
				linear, len(before.Found), len(after.Found), after.Found)
		}
		if _, err := c.GetFact(ctx, "planted"); err != nil {
			t.Errorf("linear=%v: the action's fact is not in C: %v", linear, err)
		}
	}
}

