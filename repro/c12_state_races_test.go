package core

// Repro for the C12 known findings (copy into /repo/core; go test -race -run TestVerifStateRaces).
// A mixed workload on one location reports data races under the race detector: the parsed-rule
// cache is touched outside the state lock, and expiry on read paths (get/search/doFindRules ->
// expire -> rem) mutates the state with no lock or under the read lock.

import (
	"fmt"
	"sync"
	"testing"
	"time"
)

func verifStateRaces(t *testing.T, mk func(ctx *Context, store Storage) (State, error)) {
	ctx := NewContext("repro")
	store, _ := NewMemStorage(ctx)
	state, err := mk(ctx, store)
	if err != nil {
		t.Fatal(err)
	}
	loc, err := NewLocation(ctx, "races", state, nil)
	if err != nil {
		t.Fatal(err)
	}
	rule := Map{"when": map[string]interface{}{"pattern": map[string]interface{}{"x": "?x"}}, "action": map[string]interface{}{"code": "1"}}
	var wg sync.WaitGroup
	stop := time.Now().Add(1500 * time.Millisecond)
	for g := 0; g < 4; g++ {
		wg.Add(1)
		go func(g int) {
			defer wg.Done()
			c := NewContext(fmt.Sprintf("c%d", g))
			for i := 0; time.Now().Before(stop); i++ {
				id := fmt.Sprintf("f%d", i%5)
				loc.AddFact(c, id, Map{"x": id, "ttl": "1s"})
				loc.GetFact(c, id)
				loc.SearchFacts(c, Map{"x": "?v"}, false)
				loc.AddRule(c, "r", rule)
				loc.ProcessEvent(c, Map{"x": "1"})
				loc.RemFact(c, id)
			}
		}(g)
	}
	wg.Wait()
}

func TestVerifStateRacesIndexed(t *testing.T) {
	verifStateRaces(t, func(ctx *Context, store Storage) (State, error) { return NewIndexedState(ctx, "races", store) })
}

func TestVerifStateRacesLinear(t *testing.T) {
	verifStateRaces(t, func(ctx *Context, store Storage) (State, error) { return NewLinearState(ctx, "races", store) })
}
