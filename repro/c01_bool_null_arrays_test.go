package core

// Run-time confirmation for the C01 findings LESS-COVERS and PICAST-IDEM (copy into core/ of a scratch copy):
//
//   go test -mod=mod -vet=off -count=1 -run TestVerifBoolNullArrays ./core/
//
// (a) typeCode calls arrays of booleans sortable but ThingSlice.Less had no case for bool: [true,false] and
//     [false,true] were never brought into one order, so the pattern {"flags":[true,false]} was not found for the
//     event {"flags":[false,true]} in an IndexedState.
// (b) picast(nil) returned "null", which a second picast (mod applies it twice to array elements) turned into
//     "S_null": pattern {"a":[null]} was filed under a key the event {"a":[null]} never looks up.

import "testing"

func TestVerifBoolNullArrays(t *testing.T) {
	cases := []struct {
		name    string
		pattern map[string]interface{}
		event   Map
	}{
		{"bools", map[string]interface{}{"flags": []interface{}{true, false}}, Map{"flags": []interface{}{false, true}}},
		{"null", map[string]interface{}{"a": []interface{}{nil}}, Map{"a": []interface{}{nil}}},
	}
	for _, c := range cases {
		for _, linear := range []bool{true, false} {
			ctx := NewContext("repro")
			store, _ := NewMemStorage(ctx)
			var state State
			if linear {
				state, _ = NewLinearState(ctx, "h", store)
			} else {
				state, _ = NewIndexedState(ctx, "h", store)
			}
			loc, err := NewLocation(ctx, "h", state, nil)
			if err != nil {
				t.Fatal(err)
			}
			rule := Map{"when": map[string]interface{}{"pattern": c.pattern}, "action": map[string]interface{}{"code": "1"}}
			if _, err := loc.AddRule(ctx, "r", rule); err != nil {
				t.Fatal(err)
			}
			fr, cond := loc.ProcessEvent(ctx, c.event)
			if cond != nil {
				t.Fatal(cond.Msg)
			}
			if len(fr.Children) != 1 {
				t.Errorf("%s linear=%v: %d rules evaluated, wanted 1", c.name, linear, len(fr.Children))
			}
		}
	}
}
