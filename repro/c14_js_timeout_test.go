package core

// Repro for C14 (copy into /repo/core; go test -run TestVerifJavascriptTimeout -timeout 60s).
// Before the fix: a script that really hit the JavaScript timeout blocked its caller forever (the
// deferred send on the unbuffered watchdog channel had no receiver left), and the recovered halt would
// have returned (nil, nil), i.e. success.

import (
	"testing"
	"time"
)

func TestVerifJavascriptTimeout(t *testing.T) {
	ctx := NewContext("repro")
	loc, err := NewLocation(ctx, "js", nil, nil)
	if err != nil {
		t.Fatal(err)
	}
	c := DefaultControl()
	c.JavascriptTimeout = Duration(200 * time.Millisecond)
	loc.SetControl(c)
	prev := SystemParameters.JavascriptTimeouts
	SystemParameters.JavascriptTimeouts = true
	defer func() { SystemParameters.JavascriptTimeouts = prev }()

	type res struct {
		x   interface{}
		err error
	}
	done := make(chan res, 1)
	go func() {
		x, err := loc.RunJavascript(ctx, "while (true) {}", nil, nil, nil)
		done <- res{x, err}
	}()
	select {
	case r := <-done:
		if r.err == nil {
			t.Fatalf("timed-out script reported as success (value %#v)", r.x)
		}
	case <-time.After(5 * time.Second):
		t.Fatal("caller of a timed-out script did not get control back within 5s")
	}
	// a script within the limit is unaffected
	x, err := loc.RunJavascript(ctx, "1+2", nil, nil, nil)
	if err != nil || x == nil {
		t.Fatalf("quick script: %v %v", x, err)
	}
}
