package core

// KNOWN FINDING (C20, BRK-WINDOW), not repaired: giving the window one more element makes this test pass but makes the
// existing TestHTTPBreaker fail, which sleeps exactly one interval "for the breaker to drain" and expects it drained.
// Test by the round-4 C20 sub-agent (copy into core/ of a scratch copy; fails on the pinned tree):
//
//   go test -mod=mod -vet=off -count=1 -run TestVerifBreakerWindowShort ./core/
//
// 20 elements, element 0 being the current partial tick, reach back between 19 and 20 ticks: calls made late in a tick
// are forgotten a little more than 19 ticks later, so 2*limit-1 calls fit into a window shorter than the interval.

import (
	"testing"
	"time"
)

func TestVerifBreakerWindowShort(t *testing.T) {
	const limit = 5
	interval := 2 * time.Second // tick = 100ms
	b, err := NewOutboundBreaker(limit, interval)
	if err != nil {
		t.Fatal(err)
	}
	var admitted []time.Time
	zap := func() {
		if b.Zap() {
			admitted = append(admitted, time.Now())
		}
	}
	t0 := time.Now()
	zap() // Starts tick 0 at (about) t0.
	time.Sleep(t0.Add(90 * time.Millisecond).Sub(time.Now()))
	for i := 0; i < limit; i++ {
		zap() // limit-1 more admitted, late in tick 0.
	}
	time.Sleep(t0.Add(interval + 5*time.Millisecond).Sub(time.Now()))
	for i := 0; i < limit; i++ {
		zap()
	}
	worst := 0
	for i := range admitted {
		n := 0
		for j := i; j < len(admitted); j++ {
			if admitted[j].Sub(admitted[i]) < interval {
				n++
			}
		}
		if worst < n {
			worst = n
		}
	}
	if limit < worst {
		t.Fatalf("limit %d per %v, but %d calls were admitted within less than %v (admitted %d in total)", limit, interval, worst, interval, len(admitted))
	}
}
