package core

// Run-time confirmation for the C10 finding GATE-FIRE (copy into core/ of a scratch copy of the repository):
//
//   go test -mod=mod -vet=off -count=1 -run TestVerifEvaluateInDisabledLocation ./core/
//
// An event that carries its own rule ("evaluate!") never passes the rule search, which is what refuses a disabled
// location for ordinary events: the embedded rule fired in a disabled location.  (First observed by a sub-agent that
// was asked to look for violations of C10 in the unchanged tree.)

import "testing"

func TestVerifEvaluateInDisabledLocation(t *testing.T) {
	for _, indexed := range []bool{true, false} {
		ctx := NewContext("repro")
		store, _ := NewMemStorage(ctx)
		var state State
		if indexed {
			state, _ = NewIndexedState(ctx, "d", store)
		} else {
			state, _ = NewLinearState(ctx, "d", store)
		}
		loc, err := NewLocation(ctx, "d", state, nil)
		if err != nil {
			t.Fatal(err)
		}
		if err := loc.SetProp(ctx, "", "enabled", "no"); err != nil {
			t.Fatal(err)
		}
		if _, err := loc.AddRule(ctx, "r", MustMap(`{"when":{"pattern":{"a":"?x"}}, "action":{"code":"1"}}`)); err == nil {
			t.Fatal("set-up: the location is not disabled")
		}
		fr, cond := loc.ProcessEvent(ctx, MustMap(`{"arrived":"homer","evaluate!":{"when":{"pattern":{"arrived":"?who"}}, "action":{"code":"'embedded ' + who"}}}`))
		if cond == nil && 0 < len(fr.Values) {
			t.Errorf("indexed=%v: the embedded rule fired in a disabled location: %#v", indexed, fr.Values)
		}
	}
}
