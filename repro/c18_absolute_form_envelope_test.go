// Run-time confirmation for the envelope clause of URI-PATH-WINS (C18; test body by the round-6 C18 sub-agent; copy into
// service/):
//
//   go test -mod=mod -vet=off -count=1 -run TestVerifAbsoluteFormEnvelope ./service/
//
// 9ce9d1f took the operation from the request's path but still recognised the envelope endpoints from the whole request
// target: `POST http://host/api/json` (absolute form, what a proxy sends) was an unknown URI.
package service

import (
	"bufio"
	"bytes"
	"fmt"
	"io/ioutil"
	"net"
	"net/http"
	"net/http/httptest"
	"strings"
	"testing"

	"github.com/Comcast/rulio/core"
	"github.com/Comcast/rulio/sys"
)

func unchangedServer(t *testing.T, name string) (*sys.System, *core.Context, *httptest.Server) {
	system, ctx := sys.ExampleSystem(name)
	hs, err := NewHTTPService(ctx, &Service{System: system})
	if err != nil {
		t.Fatal(err)
	}
	if _, err = system.AddFact(ctx, "here", "f1", `{"likes":"chips"}`); err != nil {
		t.Fatal(err)
	}
	return system, ctx, httptest.NewServer(hs)
}

func unchangedDo(t *testing.T, method, url, body string) (int, string) {
	req, err := http.NewRequest(method, url, bytes.NewBufferString(body))
	if err != nil {
		t.Fatal(err)
	}
	resp, err := http.DefaultClient.Do(req)
	if err != nil {
		t.Fatal(err)
	}
	defer resp.Body.Close()
	bs, err := ioutil.ReadAll(resp.Body)
	if err != nil {
		t.Fatal(err)
	}
	return resp.StatusCode, strings.TrimSpace(string(bs))
}


func TestVerifAbsoluteFormEnvelope(t *testing.T) {
	_, _, server := unchangedServer(t, "u4")
	defer server.Close()
	addr := server.Listener.Addr().String()

	raw := func(target, body string) (int, string) {
		conn, err := net.Dial("tcp", addr)
		if err != nil {
			t.Fatal(err)
		}
		defer conn.Close()
		fmt.Fprintf(conn, "POST %s HTTP/1.1\r\nHost: %s\r\nConnection: close\r\nContent-Length: %d\r\n\r\n%s", target, addr, len(body), body)
		resp, err := http.ReadResponse(bufio.NewReader(conn), nil)
		if err != nil {
			t.Fatal(err)
		}
		defer resp.Body.Close()
		bs, _ := ioutil.ReadAll(resp.Body)
		return resp.StatusCode, strings.TrimSpace(string(bs))
	}

	code, got := raw("http://"+addr+"/api/loc/admin/size", `{"location":"here"}`)
	if code != 200 || got != `{"size":1}` {
		t.Fatalf("absolute form, operation's path: %d %s", code, got)
	}
	code, got = raw("/api/json", `{"uri":"/api/loc/admin/size","location":"here"}`)
	if code != 200 || got != `{"size":1}` {
		t.Fatalf("origin form, envelope: %d %s", code, got)
	}
	code, got = raw("http://"+addr+"/api/json", `{"uri":"/api/loc/admin/size","location":"here"}`)
	if code != 200 || got != `{"size":1}` {
		t.Errorf("absolute form, envelope: %d %s", code, got)
	}
}

