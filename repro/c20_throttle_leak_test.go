package core

// Run-time confirmation for the C20 finding THR-PENDING / increment-leak (test by the round-4 C20 sub-agent; copy into
// core/ of a scratch copy):
//
//   go test -mod=mod -vet=off -count=1 -run TestVerifThrottleLeak ./core/
//
// Throttle.Submit counted a submission it was about to turn away when the throttle was disabled
// (`if !tooMany || disabled { pending++ }` ... `if tooMany { return ThrottleOverflow }`) and never un-counted it.

import (
	"testing"
	"time"
)

func TestVerifThrottleLeak(t *testing.T) {
	b, _ := NewOutboundBreaker(1, time.Hour)
	b.Zap() // Open.
	const pendingLimit = 1
	th, _ := NewThrottle(30, pendingLimit, 10*time.Millisecond, b)
	th.Disable(true)
	done := make(chan bool)
	for i := 0; i < pendingLimit+1; i++ {
		go func() {
			th.Submit(func() error { return nil })
			done <- true
		}()
	}
	time.Sleep(50 * time.Millisecond)
	for i := 0; i < 5; i++ {
		if err := th.Submit(func() error { return nil }); err != ThrottleOverflow {
			t.Fatalf("expected overflow, got %v", err)
		}
	}
	n, _ := th.Pending()
	for i := 0; i < pendingLimit+1; i++ {
		<-done
	}
	after, _ := th.Pending()
	if pendingLimit+1 < n || after != 0 {
		t.Fatalf("pending limit %d: Pending() = %d while %d were waiting, %d after all returned", pendingLimit, n, pendingLimit+1, after)
	}
}
