// Run-time confirmation for CROLT-TID-OWN (C16; test body by the round-6 C16 sub-agent; copy into crolt/):
//
//   go test -mod=mod -vet=off -count=1 -run TestVerifAddWithForeignTId ./crolt/
package main

import (
	"encoding/json"
	"fmt"
	"io/ioutil"
	"net/http"
	"net/http/httptest"
	"os"
	"path/filepath"
	"strings"
	"sync"
	"testing"
	"time"

	"github.com/boltdb/bolt"
)

func unchangedCron(t *testing.T) (*Cron, func()) {
	dir, err := ioutil.TempDir("", "unchanged")
	if err != nil {
		t.Fatal(err)
	}
	db, err := bolt.Open(filepath.Join(dir, "u.db"), 0600, nil)
	if err != nil {
		t.Fatal(err)
	}
	cron, err := NewCron(db, 4, 0, time.Hour) // No jitter.
	if err != nil {
		t.Fatal(err)
	}
	return cron, func() {
		db.Close()
		os.RemoveAll(dir)
	}
}

func timeEntries(cron *Cron, account, id string) []string {
	acc := make([]string, 0, 1)
	cron.Scan("time"+cron.Partition(account), func(b, k, v string) (bool, error) {
		if strings.HasSuffix(k, ","+account+","+id) {
			acc = append(acc, k)
		}
		return false, nil
	})
	return acc
}

// The "tid" of a job is part of the JSON that /get hands out and that
// /add accepts.  Add believes it: it deletes that key from the time
// index ("resetting").  A client that makes a new job from a copy of
// an existing one (GET, change the id, POST) thereby takes the
// existing job out of the time index: it is still in the job table
// (/get shows it, with a "tid" that points to nothing), and it never
// fires again.  Nothing was removed by anybody.
func TestVerifAddWithForeignTIdUnschedulesTheOtherJob(t *testing.T) {
	cron, done := unchangedCron(t)
	defer done()

	var mu sync.Mutex
	hits := make(map[string]int)
	endpoint := httptest.NewServer(http.HandlerFunc(func(w http.ResponseWriter, r *http.Request) {
		mu.Lock()
		hits[r.URL.Path]++
		mu.Unlock()
		fmt.Fprintf(w, "ok")
	}))
	defer endpoint.Close()

	a, err := NewJob("homer", "a", "* * * * * * *")
	if err != nil {
		t.Fatal(err)
	}
	a.URL = endpoint.URL + "/a"
	if err = cron.Add(a); err != nil {
		t.Fatal(err)
	}

	// What a client gets from /get?account=homer&id=a ...
	got, err := cron.Get("homer", "a")
	if err != nil {
		t.Fatal(err)
	}
	var m map[string]interface{}
	js, _ := json.Marshal(got)
	json.Unmarshal(js, &m)
	// ... becomes a second job.
	m["id"] = "b"
	m["url"] = endpoint.URL + "/b"
	js, _ = json.Marshal(m)

	w := httptest.NewRecorder()
	r, _ := http.NewRequest("POST", "/add", strings.NewReader(string(js)))
	cron.AddHandler(w, r)
	if w.Code != 200 {
		t.Fatalf("add: %d %s", w.Code, w.Body.String())
	}

	// Job table and time index agree?
	for _, id := range []string{"a", "b"} {
		j, err := cron.Get("homer", id)
		if err != nil {
			t.Fatalf("job %s: %v", id, err)
		}
		entries := timeEntries(cron, "homer", id)
		if len(entries) != 1 || entries[0] != j.TId {
			t.Errorf("job %s is in the job table with tid %s; time index has %v", id, j.TId, entries)
		}
	}

	time.Sleep(2100 * time.Millisecond)
	if err = cron.DB.Update(cron.work(cron.Partition("homer"))); err != nil {
		t.Fatal(err)
	}
	mu.Lock()
	defer mu.Unlock()
	if hits["/a"] != 1 {
		t.Errorf("job a (never removed) fired %d times in a pass two seconds later, want 1; hits %v", hits["/a"], hits)
	}
}

