package core

// Run-time confirmation for the C07 finding CLOCK-AFTER-LOCK (copy into core/ of a scratch copy of the repository):
//
//   go test -mod=mod -vet=off -count=1 -run TestVerifClockBeforeLock ./core/
//
// LinearState.search read the clock before it took the state lock.  A search that had to wait for the lock across a
// fact's expiry instant (here: a reload from a slow store holds the write lock) judged the fact against the time
// it started waiting, and returned it about 1.5 s after it had expired.

import (
	"fmt"
	"sync"
	"testing"
	"time"
)

type slowLoadStorage struct {
	Storage
	slow    bool
	delay   time.Duration
	started chan bool
}

func (s *slowLoadStorage) Load(ctx *Context, loc string) ([]Pair, error) {
	if s.slow {
		close(s.started)
		time.Sleep(s.delay)
	}
	return s.Storage.Load(ctx, loc)
}

func TestVerifClockBeforeLock(t *testing.T) {
	ctx := BenchContext("repro")
	mem, _ := NewMemStorage(ctx)
	store := &slowLoadStorage{Storage: mem, delay: 3 * time.Second, started: make(chan bool)}
	s, err := NewLinearState(ctx, "c", store)
	if err != nil {
		t.Fatal(err)
	}
	if err = s.Load(ctx); err != nil {
		t.Fatal(err)
	}
	for time.Now().Nanosecond() > 100*1000*1000 {
		time.Sleep(5 * time.Millisecond)
	}
	t0 := time.Now()
	expires := t0.UTC().Unix() + 3
	if _, err = s.Add(ctx, "f1", Map{"likes": "tacos", "expires": float64(expires)}); err != nil {
		t.Fatal(err)
	}
	if _, err = s.Add(ctx, "f2", Map{"likes": "chips"}); err != nil {
		t.Fatal(err)
	}
	// at about E-1.5s a slow reload takes the write lock until about E+1.5s
	time.Sleep(t0.Add(1500 * time.Millisecond).Sub(time.Now()))
	store.slow = true
	var wg sync.WaitGroup
	wg.Add(1)
	go func() {
		defer wg.Done()
		s.Load(BenchContext("reload"))
	}()
	<-store.started
	// at about E-1s a search arrives and has to wait
	time.Sleep(t0.Add(2000 * time.Millisecond).Sub(time.Now()))
	srs, err := s.Search(BenchContext("search"), Map{"likes": "?x"})
	answered := time.Now()
	wg.Wait()
	if err != nil {
		t.Fatal(err)
	}
	if answered.UTC().Unix() < expires {
		t.Skip("the search did not wait past the expiry instant; the timing assumptions do not hold on this machine")
	}
	for _, sr := range srs.Found {
		if sr.Id == "f1" {
			t.Errorf("fact f1 (expires=%d) was returned by a search answered at %d (%s after its expiry instant)", expires, answered.UTC().Unix(), fmt.Sprint(answered.Sub(time.Unix(expires, 0))))
		}
	}
}
