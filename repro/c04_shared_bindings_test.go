package core

// Repro for C04 (copy into /repo/core; go test -race -run TestVerifActionsOwnBindings).
// Before the fix: all actions of one condition result shared one bindings map, ran concurrently and each
// wrote bs["?event"] (maybeCopyEvent): a rule with several actions raced on the map (the Go runtime can
// abort the process with "concurrent map writes").

import "testing"

func TestVerifActionsOwnBindings(t *testing.T) {
	ctx := NewContext("repro")
	loc, err := NewLocation(ctx, "fan", nil, nil)
	if err != nil {
		t.Fatal(err)
	}
	prev := SystemParameters.CopyEvents
	SystemParameters.CopyEvents = true
	defer func() { SystemParameters.CopyEvents = prev }()
	actions := []interface{}{}
	for i := 0; i < 6; i++ {
		actions = append(actions, map[string]interface{}{"code": "event.n"})
	}
	rule := Map{"when": map[string]interface{}{"pattern": map[string]interface{}{"n": "?n"}}, "actions": actions}
	if _, err := loc.AddRule(ctx, "r", rule); err != nil {
		t.Fatal(err)
	}
	for i := 0; i < 50; i++ {
		fr, cond := loc.ProcessEvent(ctx, Map{"n": float64(i)})
		if cond != nil {
			t.Fatal(cond)
		}
		if len(fr.Values) != 6 {
			t.Fatalf("expected 6 action values, got %d", len(fr.Values))
		}
	}
}
