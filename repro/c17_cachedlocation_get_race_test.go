package sys

// Repro for C11/C17 (copy into /repo/sys; go test -race -run TestVerifCachedLocationGetRace).
// Before the fix: CachedLocation.Get read cl.Location after releasing cl's mutex; with existence
// checking on, a failed first open followed by a concurrent successful one races on the field.

import (
	"fmt"
	"sync"
	"testing"

	. "github.com/Comcast/rulio/core"
)

func TestVerifCachedLocationGetRace(t *testing.T) {
	s := SimpleSystem(NewContext("repro"))
	s.config.CheckExistence = true
	for round := 0; round < 300; round++ {
		name := fmt.Sprintf("loc%d", round)
		var wg sync.WaitGroup
		for i := 0; i < 4; i++ {
			wg.Add(1)
			go func() {
				defer wg.Done()
				s.GetSize(NewContext("c"), name)
			}()
		}
		wg.Add(1)
		go func() {
			defer wg.Done()
			s.CreateLocation(NewContext("c"), name)
		}()
		wg.Wait()
	}
}
