package core

// Run-time confirmation for the C06/C08 finding REM-STORE-FIRST (copy into core/ of a scratch copy of the repository):
//
//   go test -mod=mod -vet=off -count=1 -run TestVerifRemRetry ./core/
//
// IndexedState.rem forgot the fact in memory before it called Storage.Remove.  When that call failed once, the retry
// found nothing in memory, skipped the storage removal and reported success: the fact stayed in storage and came back
// with the next reload.  (First observed by a sub-agent asked to look for violations of C08 in the unchanged tree.)

import (
	"errors"
	"testing"
)

type remFaultStorage struct {
	*MemStorage
	fail int
}

func (s *remFaultStorage) Remove(ctx *Context, loc string, k []byte) (int64, error) {
	if 0 < s.fail {
		s.fail--
		return 0, errors.New("storage hiccup")
	}
	return s.MemStorage.Remove(ctx, loc, k)
}

func TestVerifRemRetry(t *testing.T) {
	ctx := BenchContext("repro")
	mem, _ := NewMemStorage(ctx)
	store := &remFaultStorage{MemStorage: mem}
	s, err := NewIndexedState(ctx, "test", store)
	if err != nil {
		t.Fatal(err)
	}
	if err := s.Load(ctx); err != nil {
		t.Fatal(err)
	}
	if _, err := s.Add(ctx, "a", Map{"likes": "beer"}); err != nil {
		t.Fatal(err)
	}
	store.fail = 1
	if _, err := s.Rem(ctx, "a"); err == nil {
		t.Fatal("the first Rem should have reported the storage error")
	}
	if _, err := s.Rem(ctx, "a"); err != nil {
		t.Fatalf("retry: %v", err)
	}
	pairs, _ := mem.Load(ctx, "test")
	if len(pairs) != 0 {
		t.Errorf("after a failed and a successful Rem the fact is still in storage (%d records): it comes back with the next reload", len(pairs))
	}
}
