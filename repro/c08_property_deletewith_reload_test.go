package core

// Run-time confirmation for the two later clauses of PROP-DW-ANY (C08, C06, C17; reported by five round-6 sub-agents;
// copy into core/ of a scratch copy):
//
//   go test -mod=mod -vet=off -count=1 -run TestVerifPropertyDeleteWith ./core/
//
// (1) A consequence of the repairs 31ebb12 and 6acd205: a location-level property written with the plain fact API
// ({"!color":"red"}) got no deleteWith when it was written but gained "deleteWith":[""] when PrepareFact ran again at
// load (IndexedState): `get` changed across a reload, and Rem("") removed the property only after a reload.
// (2) 31ebb12 gave a property its target only when it came without any deleteWith: {"id":"r1","!note":1,
// "deleteWith":["lease"]} survived r1.

import (
	"encoding/json"
	"testing"
)

func TestVerifPropertyDeleteWithReload(t *testing.T) {
	ctx := NewContext("repro")
	store, _ := NewMemStorage(ctx)
	state, _ := NewIndexedState(ctx, "h", store)
	if err := state.Load(ctx); err != nil {
		t.Fatal(err)
	}
	pid, err := state.Add(ctx, "", Map{"!color": "red"})
	if err != nil {
		t.Fatal(err)
	}
	before, _ := state.Get(ctx, pid)
	state2, _ := NewIndexedState(ctx, "h", store)
	loc := &Location{Name: "h"}
	loc.loading = true
	ctx2 := NewContext("repro")
	ctx2.SetLoc(loc)
	if err := state2.Load(ctx2); err != nil {
		t.Fatal(err)
	}
	loc.loading = false
	after, _ := state2.Get(ctx, pid)
	b, _ := json.Marshal(before)
	a, _ := json.Marshal(after)
	if string(a) != string(b) {
		t.Errorf("the stored property changed across a reload:\n before %s\n after  %s", b, a)
	}
}

func TestVerifPropertyDeleteWithOwnList(t *testing.T) {
	for _, linear := range []bool{true, false} {
		ctx := NewContext("repro")
		store, _ := NewMemStorage(ctx)
		var state State
		if linear {
			state, _ = NewLinearState(ctx, "h", store)
		} else {
			state, _ = NewIndexedState(ctx, "h", store)
		}
		if err := state.Load(ctx); err != nil {
			t.Fatal(err)
		}
		state.Add(ctx, "r1", Map{"likes": "tacos"})
		given := []interface{}{"lease"}
		if _, err := state.Add(ctx, "", Map{"id": "r1", "!note": 1, "deleteWith": given}); err != nil {
			t.Fatal(err)
		}
		if len(given) != 1 {
			t.Errorf("the caller's list was changed: %v", given)
		}
		state.Rem(ctx, "r1")
		if _, found, _ := GetProp(ctx, state, "r1", "note", nil); found {
			t.Errorf("linear=%v: the property `note` of r1 (deleteWith [lease]) survived r1", linear)
		}
	}
}
