package sys

// Run-time confirmation for the C12/C17 finding CACHE-EVICT (written by a sub-agent asked to look for violations in the
// unchanged tree; fails before fix, passes after).  Copy into sys/ and run
//
//   go test -mod=mod -vet=off -count=1 -run TestUnchangedOpenFailureEvicts ./sys/
//
// CachedLocation.Get removes the cache entry by NAME after a failed
// open.  By then a concurrent request can have opened the location
// through the same entry, so a third request loads a second instance
// of the location while the second request is still using the first.

import (
	"errors"
	"sort"
	"strings"
	"sync"
	"testing"
	"time"

	. "github.com/Comcast/rulio/core"
)

type flakyStorage struct {
	Storage
	sync.Mutex
	loads       int
	loadEntered chan bool
	loadRelease chan bool
	addKey      string
	addEntered  chan bool
	addRelease  chan bool
}

func (f *flakyStorage) Load(ctx *Context, loc string) ([]Pair, error) {
	f.Lock()
	f.loads++
	n := f.loads
	f.Unlock()
	if n == 1 {
		close(f.loadEntered)
		<-f.loadRelease
		return nil, errors.New("storage hiccup")
	}
	return f.Storage.Load(ctx, loc)
}

func (f *flakyStorage) Add(ctx *Context, loc string, p *Pair) error {
	if string(p.K) == f.addKey {
		close(f.addEntered)
		<-f.addRelease
	}
	return f.Storage.Add(ctx, loc, p)
}

func TestUnchangedOpenFailureEvicts(t *testing.T) {
	s := SimpleSystem(BenchContext("b4"))
	mem, _ := NewMemStorage(BenchContext("b4"))
	f := &flakyStorage{Storage: mem,
		loadEntered: make(chan bool), loadRelease: make(chan bool),
		addKey: "b", addEntered: make(chan bool), addRelease: make(chan bool)}
	s.storage = f
	location := "b4"

	aDone := make(chan error, 1)
	go func() {
		_, err := s.AddFact(BenchContext("A"), location, "a", `{"n":"a"}`)
		aDone <- err
	}()
	<-f.loadEntered

	bDone := make(chan error, 1)
	go func() {
		_, err := s.AddFact(BenchContext("B"), location, "b", `{"n":"b"}`)
		bDone <- err
	}()
	time.Sleep(200 * time.Millisecond) // B is waiting for the entry A is loading.

	close(f.loadRelease)
	if err := <-aDone; err == nil {
		t.Fatal("A should have failed")
	}
	<-f.addEntered // B opened the location and is writing "b".

	cDone := make(chan error, 1)
	go func() {
		_, err := s.AddFact(BenchContext("C"), location, "c", `{"n":"c"}`)
		cDone <- err
	}()
	time.Sleep(300 * time.Millisecond)
	close(f.addRelease)
	if err := <-bDone; err != nil {
		t.Fatal(err)
	}
	if err := <-cDone; err != nil {
		t.Fatal(err)
	}

	ctx := BenchContext("check")
	srs, err := s.SearchFacts(ctx, location, `{"n":"?x"}`, false)
	if err != nil {
		t.Fatal(err)
	}
	served := make([]string, 0)
	for _, sr := range srs.Found {
		served = append(served, sr.Id)
	}
	sort.Strings(served)
	pairs, _ := mem.Load(ctx, location)
	stored := make([]string, 0)
	for _, p := range pairs {
		stored = append(stored, string(p.K))
	}
	sort.Strings(stored)
	if strings.Join(served, ",") != strings.Join(stored, ",") {
		t.Fatalf("the engine serves %v but storage has %v", served, stored)
	}
}
