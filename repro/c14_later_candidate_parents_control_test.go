package core

// Run-time confirmation for the per-round clause of CTX-SCRIPT (C09, C14; history by the round-7 C14 sub-agent): 316109e
// made CodeQuery.Exec point the context at its location once, before the loop over the candidate bindings.  A
// candidate's script whose inherited search fails in a parent (the parent wants a read key) leaves the context at the
// parent, and every later candidate's script ran under the parent's control: the child's script time-out of 200ms did
// not stop it (the parent's 3s did), and its Env.AddFact would have written into the parent.

import (
	"testing"
	"time"
)

func TestVerifLaterCandidateRunsUnderItsOwnLocation(t *testing.T) {
	open := func(name string, ctl *Control) (*Context, *Location) {
		ctx := TestContext(name)
		ctx.Verbosity = NOTHING
		store, err := NewMemStorage(ctx)
		if err != nil {
			t.Fatal(err)
		}
		state, err := NewIndexedState(ctx, name, store)
		if err != nil {
			t.Fatal(err)
		}
		loc, err := NewLocation(ctx, name, state, ctl)
		if err != nil {
			t.Fatal(err)
		}
		ctx.SetLoc(loc)
		return ctx, loc
	}
	childCtl := DefaultControl()
	childCtl.JavascriptTimeout = Duration(200 * time.Millisecond)
	parentCtl := DefaultControl()
	parentCtl.JavascriptTimeout = Duration(3 * time.Second)
	ctx, child := open("child", childCtl)
	pctx, parent := open("parent", parentCtl)
	if _, err := SetProp(pctx, parent.state, "", "readKey", "sesame"); err != nil {
		t.Fatal(err)
	}
	child.Provider = NewSimpleLocationProvider(map[string]*Location{"parent": parent})
	if _, err := child.SetParents(ctx, []string{"parent"}); err != nil {
		t.Fatal(err)
	}
	// Two candidates.  Each candidate's script looks around (inherited; that fails at the parent, which the script
	// takes in its stride); a script that finds itself somewhere else than in 'child' spins.
	q := `{"and":[{"or":[{"code":"({n:1})"},{"code":"({n:2})"}]},
	  {"code":["var where = Env.Location;",
	           "try { Env.Search({n:'?m'}); } catch (e) {}",
	           "if (where != 'child') { while (true) {} }",
	           "true"]}]}`
	then := time.Now()
	_, err := child.Query(ctx, q)
	elapsed := time.Since(then)
	if err != nil && time.Second < elapsed {
		t.Errorf("child's JavascriptTimeout is 200ms; a candidate's script ran %v under the parent's control: %v", elapsed, err)
	} else if err != nil {
		t.Errorf("a candidate's script ran pointed at the parent: %v (after %v)", err, elapsed)
	}
}
