package cron

// Run-time confirmation for three C15 findings that were repaired in session 3 (copy into cron/ of a scratch copy):
//
//   go test -mod=mod -vet=off -count=1 -run TestVerifLinearHooks ./cron/
//
// LinearState.Load did not run the add hook (a reloaded linear location did not register its scheduled rules with an
// ephemeral cron), LinearState.Clear / Delete did not run the removal hook (the rules of a wiped location kept ticking).

import (
	"testing"

	"github.com/Comcast/rulio/core"
)

type ephCron struct{ jobs map[string]bool }

func (c *ephCron) Persistent() bool                                         { return false }
func (c *ephCron) Schedule(ctx *core.Context, sw *ScheduledWork) error      { return nil }
func (c *ephCron) ScheduleEvent(ctx *core.Context, se *ScheduledEvent) error { c.jobs[se.Id] = true; return nil }
func (c *ephCron) Rem(ctx *core.Context, id string) (bool, error) {
	_, had := c.jobs[id]
	delete(c.jobs, id)
	return had, nil
}

func TestVerifLinearHooks(t *testing.T) {
	ctx := core.NewContext("repro")
	store, _ := core.NewMemStorage(ctx)
	rule := core.Map{"schedule": "* * * * *", "action": map[string]interface{}{"code": "1"}}

	// process A
	stateA, _ := core.NewLinearState(ctx, "h", store)
	cronA := &ephCron{jobs: map[string]bool{}}
	AddHooks(ctx, cronA, stateA)
	locA, err := core.NewLocation(ctx, "h", stateA, nil)
	if err != nil {
		t.Fatal(err)
	}
	if _, err := locA.AddRule(ctx, "r", rule); err != nil {
		t.Fatal(err)
	}
	if len(cronA.jobs) != 1 {
		t.Fatalf("set-up: %d jobs", len(cronA.jobs))
	}

	// process B: same storage, a cron that remembers nothing
	stateB, _ := core.NewLinearState(ctx, "h", store)
	cronB := &ephCron{jobs: map[string]bool{}}
	AddHooks(ctx, cronB, stateB)
	locB, err := core.NewLocation(ctx, "h", stateB, nil)
	if err != nil {
		t.Fatal(err)
	}
	if len(cronB.jobs) != 1 {
		t.Errorf("after the reload %d scheduled rules are registered with the new cron (wanted 1)", len(cronB.jobs))
	}
	cronB.jobs["r"] = true
	if err := locB.Clear(ctx); err != nil {
		t.Fatal(err)
	}
	if len(cronB.jobs) != 0 {
		t.Errorf("after Clear %d jobs are still registered (wanted 0)", len(cronB.jobs))
	}
}
