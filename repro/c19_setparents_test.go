package core

// Repro for C19 (run by hand: copy into /repo/core and `go test -run TestVerifSetParentsWriteKey`).
// Before the fix: SetParents succeeds on a write-protected location without the key.

import "testing"

func TestVerifSetParentsWriteKey(t *testing.T) {
	ctx := NewContext("repro")
	loc, err := NewLocation(ctx, "prot", nil, nil)
	if err != nil {
		t.Fatal(err)
	}
	if err := loc.SetProp(ctx, "", "writeKey", "secret"); err != nil {
		t.Fatal(err)
	}
	if _, err := loc.AddFact(ctx, "f", Map{"a": "b"}); err == nil {
		t.Fatal("AddFact without key should fail")
	}
	if _, err := loc.SetParents(ctx, []string{"evil"}); err == nil {
		t.Fatal("SetParents without the write key succeeded")
	}
	ctx.WriteKey = "secret"
	if _, err := loc.SetParents(ctx, []string{"good"}); err != nil {
		t.Fatalf("SetParents with the key failed: %v", err)
	}
}
