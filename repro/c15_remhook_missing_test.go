// Run-time confirmation for the C15 finding HOOK-REM-MISSING (test by the round-5 C01 sub-agent; copy into sys/ of a
// scratch copy; sleeps 2 s per state):
//
//   go test -mod=mod -vet=off -count=1 -run TestUnchangedClearWithExpiredFact ./sys/
//
// The cron removal hook returned the NotFound error of state.Get for an id that is not (or, having expired, no longer)
// stored: ClearLocation failed as a whole when some fact had expired unnoticed (its rules stayed in service), and a
// RemFact of a missing id failed in the hook instead of being a no-op as in core alone.
package sys

import (
	"testing"
	"time"

	. "github.com/Comcast/rulio/core"
	"github.com/Comcast/rulio/cron"
)

func ucSystem(t *testing.T, name string, linear bool) (*System, *Context) {
	ctx := BenchContext(name)
	conf := ExampleConfig()
	conf.UnindexedState = linear
	cont := ExampleSystemControl()
	cont.LocationTTL = Forever
	cr, _ := cron.NewCron(nil, time.Second, "intcron", 1000000)
	go cr.Start(ctx)
	cont.DefaultLocControl = &Control{MaxFacts: 1000, Verbosity: NOTHING, NoTiming: true}
	sys, err := NewSystem(ctx, *conf, *cont, &cron.InternalCron{Cron: cr})
	if err != nil {
		t.Fatal(err)
	}
	return sys, ctx
}

// A fact that has expired but that nobody has looked at since makes
// ClearLocation fail (the removal hook cannot Get it), and the rules
// that the clear was to remove stay in service.
func ucClearWithExpiredFact(t *testing.T, linear bool) {
	sys, ctx := ucSystem(t, "ucclear", linear)
	defer sys.Close(ctx)
	location := "ucclear"
	if _, err := sys.AddRule(ctx, location, "r1", `{"when":{"pattern":{"kind":"A"}},"action":{"code":"1"}}`); err != nil {
		t.Fatal(err)
	}
	if _, err := sys.AddFact(ctx, location, "f1", `{"likes":"tacos","ttl":1}`); err != nil {
		t.Fatal(err)
	}
	time.Sleep(2100 * time.Millisecond)
	if err := sys.ClearLocation(ctx, location); err != nil {
		t.Errorf("ClearLocation: %v", err)
	}
	fr, err := sys.ProcessEvent(ctx, location, `{"kind":"A"}`)
	if err != nil {
		t.Fatal(err)
	}
	if len(fr.Children) != 0 {
		t.Errorf("%d rules evaluated after ClearLocation", len(fr.Children))
	}
}

func TestUnchangedClearWithExpiredFactIndexed(t *testing.T) { ucClearWithExpiredFact(t, false) }
func TestUnchangedClearWithExpiredFactLinear(t *testing.T)  { ucClearWithExpiredFact(t, true) }
