package core

// Run-time confirmation for the C01/C13 finding RULE-SHAPED-SKIP (from the round-5 C01, C10 and C13 sub-agents' reports;
// copy into core/ of a scratch copy):
//
//   go test -mod=mod -vet=off -count=1 -run TestVerifRuleShapedFact ./core/
//
// A fact {"rule":{"when":...}} without an action is stored (and indexed) like a rule but does not parse as one.
// FindCachedRules returned RuleFromMap's error for it: every event that matches its `when` failed as a whole, and the
// genuine rules that match never fired.

import "testing"

func TestVerifRuleShapedFact(t *testing.T) {
	for _, linear := range []bool{true, false} {
		ctx := NewContext("repro")
		store, _ := NewMemStorage(ctx)
		var state State
		if linear {
			state, _ = NewLinearState(ctx, "h", store)
		} else {
			state, _ = NewIndexedState(ctx, "h", store)
		}
		loc, err := NewLocation(ctx, "h", state, nil)
		if err != nil {
			t.Fatal(err)
		}
		when := map[string]interface{}{"pattern": map[string]interface{}{"a": "?x"}}
		if _, err := loc.AddRule(ctx, "good", Map{"when": when, "action": map[string]interface{}{"code": "1"}}); err != nil {
			t.Fatal(err)
		}
		if _, err := loc.AddFact(ctx, "odd", Map{"rule": map[string]interface{}{"when": when}}); err != nil {
			t.Fatal(err)
		}
		fr, cond := loc.ProcessEvent(ctx, Map{"a": 1.0})
		if cond != nil {
			t.Errorf("linear=%v: the event failed: %s", linear, cond.Msg)
			continue
		}
		if len(fr.Children) != 1 || fr.Children[0].Rule.Id != "good" {
			t.Errorf("linear=%v: %d rules evaluated, wanted the one genuine rule", linear, len(fr.Children))
		}
	}
}
