package core

// Repros for C13 (copy into /repo/core; go test -run TestVerifMalformed).
// Before the fixes each of these inputs panicked (the first one inside the state lock of an indexed
// location, which then blocked forever for every later request).

import (
	"testing"
	"time"
)

func verifLocs(t *testing.T) (*Context, []*Location) {
	ctx := NewContext("repro")
	var out []*Location
	for _, linear := range []bool{false, true} {
		store, _ := NewMemStorage(ctx)
		var st State
		if linear {
			st, _ = NewLinearState(ctx, "m", store)
		} else {
			st, _ = NewIndexedState(ctx, "m", store)
		}
		loc, err := NewLocation(ctx, "m", st, nil)
		if err != nil {
			t.Fatal(err)
		}
		out = append(out, loc)
	}
	return ctx, out
}

func verifNoPanic(t *testing.T, what string, f func()) {
	done := make(chan interface{}, 1)
	go func() {
		defer func() { done <- recover() }()
		f()
	}()
	select {
	case x := <-done:
		if x != nil {
			t.Errorf("%s: panic: %v", what, x)
		}
	case <-time.After(5 * time.Second):
		t.Errorf("%s: did not return (location poisoned?)", what)
	}
}

func TestVerifMalformedFacts(t *testing.T) {
	ctx, locs := verifLocs(t)
	bad := []Map{
		{"rule": map[string]interface{}{"when": 5.0}},
		{"rule": map[string]interface{}{"when": map[string]interface{}{"pattern": "x"}}},
		{"rule": 5.0},
		{"_id": "somebodyelse", "a": "b"},
	}
	for _, loc := range locs {
		for i, f := range bad {
			f := f
			verifNoPanic(t, "AddFact", func() { loc.AddFact(ctx, "bad", f) })
			// ordinary traffic afterwards
			verifNoPanic(t, "canary add", func() {
				if _, err := loc.AddFact(ctx, "ok", Map{"likes": "tacos"}); err != nil {
					t.Errorf("canary after bad fact %d: %v", i, err)
				}
			})
			verifNoPanic(t, "canary event", func() { loc.ProcessEvent(ctx, Map{"likes": "tacos"}) })
			verifNoPanic(t, "canary search", func() { loc.SearchFacts(ctx, Map{"likes": "?x"}, false) })
		}
	}
}

func TestVerifMalformedParseMap(t *testing.T) {
	if _, err := ParseMap(`{"unterminated`); err == nil {
		t.Fatal("ParseMap reported success for invalid JSON")
	}
}
