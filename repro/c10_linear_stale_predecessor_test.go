// Run-time confirmation for the LinearState clause of ADD-EXPIRES-STALE (C10 C08; test body by the round-6 C10 sub-agent;
// copy into core/):
//
//   go test -mod=mod -vet=off -count=1 -run TestVerifExpiredRulesFlagOutlivesIt ./core/
//
// A disabled rule that expires unnoticed and is then added again under its id: IndexedState purges the expired predecessor
// with its dependents first (1b76ae4); LinearState did not, and the new rule was born disabled.
package core

import (
	"errors"
	"fmt"
	"strings"
	"sync"
	"testing"
	"time"
)

// ---------------------------------------------------------------- helpers

type c10uStore struct {
	Storage
	sync.Mutex
	failAdd func(k string) bool
	// afterAdd is called after the underlying Add has been done
	// and before Add returns.
	afterAdd func(k string)
	// beforeAdd is called before the underlying Add.
	beforeAdd func(k string)
}

func (s *c10uStore) Add(ctx *Context, loc string, p *Pair) error {
	s.Lock()
	fail, before, after := s.failAdd, s.beforeAdd, s.afterAdd
	s.Unlock()
	if fail != nil && fail(string(p.K)) {
		return errors.New("injected add fault")
	}
	if before != nil {
		before(string(p.K))
	}
	err := s.Storage.Add(ctx, loc, p)
	if after != nil {
		after(string(p.K))
	}
	return err
}

func c10uLoc(t *testing.T, name string, linear bool, store Storage) (*Context, *Location) {
	ctx := NewContext(name)
	ctx.Verbosity = NOTHING
	var state State
	if linear {
		state, _ = NewLinearState(ctx, name, store)
	} else {
		state, _ = NewIndexedState(ctx, name, store)
	}
	loc, err := NewLocation(ctx, name, state, nil)
	if err != nil {
		t.Fatal(err)
	}
	c := DefaultControl()
	c.Verbosity = NOTHING
	loc.SetControl(c)
	ctx.SetLoc(loc)
	return ctx, loc
}

func c10uMap(js string) Map {
	m, err := ParseMap(js)
	if err != nil {
		panic(err)
	}
	return m
}

func c10uRule(tag string) Map {
	return c10uMap(`{"when":{"pattern":{"wants":"?x"}},"action":{"code":"'` + tag + `'"}}`)
}

func c10uFired(t *testing.T, ctx *Context, loc *Location) string {
	fr, cond := loc.ProcessEvent(ctx, c10uMap(`{"wants":"beer"}`))
	if cond != nil {
		return "COND:" + cond.Msg
	}
	acc := []string{}
	for _, v := range fr.Values {
		acc = append(acc, fmt.Sprintf("%v", v))
	}
	// Actions of different rules run one after the other, but be safe.
	for i := range acc {
		for j := i + 1; j < len(acc); j++ {
			if acc[j] < acc[i] {
				acc[i], acc[j] = acc[j], acc[i]
			}
		}
	}
	return strings.Join(acc, ",")
}

func c10uStates(t *testing.T, f func(t *testing.T, linear bool)) {
	t.Run("IndexedState", func(t *testing.T) { f(t, false) })
	t.Run("LinearState", func(t *testing.T) { f(t, true) })
}

func TestVerifExpiredRulesFlagOutlivesIt(t *testing.T) {
	c10uStates(t, func(t *testing.T, linear bool) {
		store, _ := NewMemStorage(nil)
		ctx, loc := c10uLoc(t, "home", linear, store)
		r := c10uRule("A")
		r["ttl"] = "1s"
		if _, err := loc.AddRule(ctx, "r1", r); err != nil {
			t.Fatal(err)
		}
		if err := loc.EnableRule(ctx, "r1", false); err != nil {
			t.Fatal(err)
		}
		time.Sleep(2100 * time.Millisecond)
		if _, err := loc.AddRule(ctx, "r1", c10uRule("B")); err != nil {
			t.Fatal(err)
		}
		if got := c10uFired(t, ctx, loc); got != "B" {
			t.Errorf("the new r1 was never disabled; fired '%s'", got)
		}
		if enabled, err := loc.RuleEnabled(ctx, "r1"); err != nil || !enabled {
			t.Errorf("RuleEnabled(new r1) = %v, %v", enabled, err)
		}
	})
}


var _ = errors.New
var _ = strings.Contains
var _ sync.Mutex
