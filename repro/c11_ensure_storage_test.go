package sys

// Repro for C11 (copy into /repo/sys; go test -race -run TestVerifEnsureStorageRace).
// Before the fix: two concurrent first requests race on System.storage (reported by -race) and can
// end up with two different MemStorage instances, so one location's writes vanish from PeekStorage.

import (
	"sync"
	"testing"

	. "github.com/Comcast/rulio/core"
)

func TestVerifEnsureStorageRace(t *testing.T) {
	for round := 0; round < 200; round++ {
		s := SimpleSystem(NewContext("repro"))
		var wg sync.WaitGroup
		stores := make([]Storage, 8)
		for i := 0; i < 8; i++ {
			wg.Add(1)
			go func(i int) {
				defer wg.Done()
				st, _ := s.ensureStorage(NewContext("c"))
				stores[i] = st
			}(i)
		}
		wg.Wait()
		for i := 1; i < 8; i++ {
			if stores[i] != stores[0] {
				t.Fatalf("round %d: concurrent first requests got different storage instances", round)
			}
		}
	}
}
