// Run-time confirmation for the C18 findings JSON-QUOTE (facts/get id, batch error text), PARAM-PRESENCE (take=false) and
// TYPED-NIL (events/retry) (tests by the round-5 C18 sub-agent; copy into service/ of a scratch copy):
//
//   go test -mod=mod -vet=off -count=1 -run TestUnchanged ./service/
//
// All four failed before the repairs.
package service

import (
	"bytes"
	"encoding/json"
	"io/ioutil"
	"net/http"
	"net/http/httptest"
	"net/url"
	"strings"
	"testing"

	"github.com/Comcast/rulio/core"
	"github.com/Comcast/rulio/sys"
)

func unchangedPost(t *testing.T, base, path, body string) (int, string) {
	resp, err := http.Post(base+path, "text/plain", bytes.NewBufferString(body))
	if err != nil {
		t.Fatal(err)
	}
	defer resp.Body.Close()
	bs, err := ioutil.ReadAll(resp.Body)
	if err != nil {
		t.Fatal(err)
	}
	return resp.StatusCode, strings.TrimSpace(string(bs))
}

func unchangedServer(t *testing.T) (*sys.System, *core.Context, *httptest.Server) {
	system, ctx := sys.ExampleSystem("unchanged")
	hs, err := NewHTTPService(ctx, &Service{System: system})
	if err != nil {
		t.Fatal(err)
	}
	return system, ctx, httptest.NewServer(hs)
}

func unchangedQuery(kvs ...string) string {
	u := url.Values{}
	for i := 0; i+1 < len(kvs); i += 2 {
		u.Set(kvs[i], kvs[i+1])
	}
	return u.Encode()
}

// U1: /api/loc/facts/get pastes the id into its answer without
// escaping it, so an id that needs JSON escaping gives an answer that
// is not JSON (facts/add and facts/rem escape the same id properly).
func TestUnchangedFactsGetEscapesId(t *testing.T) {
	system, ctx, server := unchangedServer(t)
	defer server.Close()
	defer system.Close(ctx)

	for _, id := range []string{`a"b`, `a\b`, "a\nb"} {
		if _, err := system.AddFact(ctx, "here", id, `{"a":1}`); err != nil {
			t.Fatal(err)
		}
		want, err := system.GetFact(ctx, "here", id)
		if err != nil {
			t.Fatal(err)
		}
		code, got := unchangedPost(t, server.URL, "/api/loc/facts/get?"+unchangedQuery("location", "here", "id", id), "")
		if code != http.StatusOK {
			t.Errorf("id %q: %d %q", id, code, got)
			continue
		}
		var m map[string]interface{}
		if err := json.Unmarshal([]byte(got), &m); err != nil {
			t.Errorf("id %q: answer %q is not JSON: %v (System.GetFact says %s)", id, got, err, want)
			continue
		}
		if m["id"] != id {
			t.Errorf("id %q: answer %q", id, got)
		}
	}
}

// U2: /api/loc/facts/search looks at the presence of 'take', not at
// its value: "take=false" (or "take":false in a body) removes what it
// finds.  System.SearchFacts with the same arguments removes nothing.
func TestUnchangedSearchTakeFalse(t *testing.T) {
	system, ctx, server := unchangedServer(t)
	defer server.Close()
	defer system.Close(ctx)

	for name, req := range map[string][2]string{
		"query": {"/api/loc/facts/search?" + unchangedQuery("location", "here", "pattern", `{"a":"?x"}`, "take", "false"), ""},
		"json":  {"/api/loc/facts/search", `{"location":"here","pattern":{"a":"?x"},"take":false}`},
		"yaml":  {"/api/loc/facts/search", "location: here\npattern:\n  a: \"?x\"\ntake: false\n"},
	} {
		if _, err := system.AddFact(ctx, "here", "f", `{"a":1}`); err != nil {
			t.Fatal(err)
		}
		code, got := unchangedPost(t, server.URL, req[0], req[1])
		if code != http.StatusOK {
			t.Fatalf("%s: %d %q", name, code, got)
		}
		sr, err := system.SearchFacts(ctx, "here", `{"a":"?x"}`, false)
		if err != nil {
			t.Fatal(err)
		}
		if len(sr.Found) != 1 {
			t.Errorf("%s: a search with take=false removed the fact", name)
		}
	}
}

// U4: a batch pastes error messages into its answer without escaping
// them, so the answer is not JSON when a message has a quote in it.
func TestUnchangedBatchErrorIsJSON(t *testing.T) {
	system, ctx, server := unchangedServer(t)
	defer server.Close()
	defer system.Close(ctx)

	for name, body := range map[string]string{
		"missing fact":   `{"requests":[{"uri":"/api/loc/facts/get","location":"here","id":"no\"pe"}]}`,
		"javascript":     `{"requests":[{"uri":"/api/loc/util/js","location":"here","code":"throw new Error('a \"b\" c')"}]}`,
		"bad uri":        `{"requests":[{"uri":["x"]}]}`,
		"bad rule":       `{"requests":[{"uri":"/api/loc/rules/add","location":"here","rule":{"when":{"pattern":{"a":1}},"condition":{"and":"x"},"action":{"code":"1"}}}]}`,
		"unknown uri \\": `{"requests":[{"uri":"/api/loc/nope\\"}]}`,
	} {
		code, got := unchangedPost(t, server.URL, "/api/sys/util/batch", body)
		if code != http.StatusOK {
			t.Errorf("%s: %d %q", name, code, got)
			continue
		}
		var xs []map[string]interface{}
		if err := json.Unmarshal([]byte(got), &xs); err != nil {
			t.Errorf("%s: answer %q is not JSON: %v", name, got, err)
			continue
		}
		if _, have := xs[0]["error"]; len(xs) != 1 || !have {
			t.Errorf("%s: answer %q", name, got)
		}
	}
}

// U5: System.RetryEventWork returns a nil *core.Condition as an
// 'error', which is not a nil error: the operation reports a failure
// ("nil condition") after it did all its work, and
// /api/loc/events/retry answers 400 for work that was retried
// successfully (the rule's action ran again).
func TestUnchangedRetrySucceeds(t *testing.T) {
	system, ctx, server := unchangedServer(t)
	defer server.Close()
	defer system.Close(ctx)

	core.JavascriptTestValue = nil
	_, err := system.AddRule(ctx, "rt", "r1", `{"when":{"pattern":{"a":"?x"}},"action":{"code":"Env.AddFact('', {seen: x}); x"}}`)
	if err != nil {
		t.Fatal(err)
	}
	code, got := unchangedPost(t, server.URL, "/api/loc/events/ingest", `{"location":"rt","event":{"a":7}}`)
	if code != http.StatusOK {
		t.Fatalf("%d %q", code, got)
	}
	var ingested struct {
		Result json.RawMessage `json:"result"`
	}
	if err = json.Unmarshal([]byte(got), &ingested); err != nil {
		t.Fatal(err)
	}
	before, _ := system.SearchFacts(ctx, "rt", `{"seen":"?x"}`, false)

	code, got = unchangedPost(t, server.URL, "/api/loc/events/retry", unchangedQuery("location", "rt", "work", string(ingested.Result)))

	after, _ := system.SearchFacts(ctx, "rt", `{"seen":"?x"}`, false)
	t.Logf("facts written by the action: %d before the retry, %d after", len(before.Found), len(after.Found))
	if code != http.StatusOK {
		t.Errorf("retry: %d %q", code, got)
	}

	// The direct call.
	var fr core.FindRules
	if err = json.Unmarshal(ingested.Result, &fr); err != nil {
		t.Fatal(err)
	}
	if err = system.RetryEventWork(ctx, "rt", &fr); err != nil {
		t.Errorf("System.RetryEventWork: %v (%#v)", err, err)
	}
}

