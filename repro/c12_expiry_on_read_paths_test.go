package core

// Run-time confirmation for the repair of expiry on read paths (C12, C13, C07; the test bodies are the round-6 C13 and
// C07 sub-agents'; copy into core/ of a scratch copy):
//
//   go test -mod=mod -vet=off -count=1 -run TestVerifExpiryConcurrentSearches ./core/     (kills the binary before the repair)
//   go test -mod=mod -vet=off -count=1 -run TestVerifExpiryGetVsOverwrite ./core/
//
// Search and FindRules removed the facts they found expired while they held only the state's read lock, Get with no lock
// at all: two searches over expired facts at the same time were `fatal error: concurrent map iteration and map write`
// (20 of the 34 LOCKSET / ATOM-STORE known findings of C12), and a Get of an expired fact removed BY ID whatever a
// concurrent writer had stored under that id meanwhile — a fact without any expiry was gone from memory and storage.

import (
	"fmt"
	"sync"
	"testing"
	"time"
)

func unchangedQuiet() func() {
	old := DefaultLogger
	DefaultLogger = BenchLogger
	return func() { DefaultLogger = old }
}

func unchangedState(t *testing.T, indexed bool) (*Context, *MemStorage, State) {
	ctx := BenchContext("unchanged")
	store, _ := NewMemStorage(ctx)
	var s State
	var err error
	if indexed {
		s, err = NewIndexedState(ctx, "unchanged", store)
	} else {
		s, err = NewLinearState(ctx, "unchanged", store)
	}
	if err != nil {
		t.Fatal(err)
	}
	if err = s.Load(ctx); err != nil {
		t.Fatal(err)
	}
	return ctx, store, s
}

func unchangedWaitPast(secs int64) {
	for time.Now().UTC().Unix() <= secs {
		time.Sleep(50 * time.Millisecond)
	}
}

func testCrashConcurrentExpiry(t *testing.T, linear bool) {
	ctx := BenchContext("crash")
	store, _ := NewMemStorage(ctx)
	var st State
	if linear {
		st, _ = NewLinearState(ctx, "crash", store)
	} else {
		st, _ = NewIndexedState(ctx, "crash", store)
	}
	loc, err := NewLocation(ctx, "crash", st, nil)
	if err != nil {
		t.Fatal(err)
	}
	for i := 0; i < 500; i++ {
		fact := MustMap(fmt.Sprintf(`{"likes":"tacos","n":%d,"ttl":"1s"}`, i))
		if _, err := loc.AddFact(ctx, fmt.Sprintf("f%d", i), fact); err != nil {
			t.Fatal(err)
		}
	}
	time.Sleep(2100 * time.Millisecond)
	var wg sync.WaitGroup
	for g := 0; g < 8; g++ {
		wg.Add(1)
		go func() {
			defer wg.Done()
			c := BenchContext("request")
			if _, err := loc.SearchFacts(c, MustMap(`{"likes":"?x"}`), false); err != nil {
				t.Error(err)
			}
		}()
	}
	wg.Wait()
}

func testUnchangedGetVsOverwrite(t *testing.T, indexed bool, pauseOp string) {
	defer unchangedQuiet()()
	quiet, store, s := unchangedState(t, indexed)

	expires := time.Now().UTC().Unix() + 2
	if _, err := s.Add(quiet, "f1", Map{"likes": "tacos", "expires": float64(expires)}); err != nil {
		t.Fatal(err)
	}
	unchangedWaitPast(expires)

	reader := NewContext("unchanged-reader")
	reader.Verbosity = EVERYTHING
	var once sync.Once
	var writeErr error
	done := make(chan bool)
	reader.LogHook = func(level LogLevel, args ...interface{}) {
		if len(args) < 2 {
			return
		}
		if op, _ := args[1].(string); op != pauseOp {
			return
		}
		once.Do(func() {
			go func() {
				_, writeErr = s.Add(quiet, "f1", Map{"likes": "pizza"})
				close(done)
			}()
			// The writer gets its chance.  (If the reader holds a
			// lock at this point, the writer waits for it, and we
			// go on.)
			select {
			case <-done:
			case <-time.After(300 * time.Millisecond):
			}
		})
	}

	// Whatever this Get answers (the old fact has expired; the new
	// one might or might not be there yet) ...
	s.Get(reader, "f1")
	once.Do(func() { close(done) })
	<-done
	if writeErr != nil {
		t.Fatal(writeErr)
	}

	// ... the new fact has been written, completely, and never expires.
	fact, err := s.Get(quiet, "f1")
	if err != nil {
		pairs, _ := store.Load(quiet, "unchanged")
		t.Fatalf("the fact written without an expiry is gone: Get says '%v'; %d pairs in storage", err, len(pairs))
	}
	if fact["likes"] != "pizza" {
		t.Fatalf("unexpected f1: %#v", fact)
	}
}


func TestVerifExpiryConcurrentSearchesIndexed(t *testing.T) { testCrashConcurrentExpiry(t, false) }
func TestVerifExpiryConcurrentSearchesLinear(t *testing.T)  { testCrashConcurrentExpiry(t, true) }
func TestVerifExpiryGetVsOverwriteIndexed(t *testing.T) {
	testUnchangedGetVsOverwrite(t, true, "IndexedState.expire")
}
func TestVerifExpiryGetVsOverwriteLinear(t *testing.T) {
	testUnchangedGetVsOverwrite(t, false, "checkExpiration")
}
