package sys

// Run-time confirmation for the C17 finding PENDING-COUNT (copy to sys/ of a scratch copy of the repository):
//
//   go test -mod=mod -vet=off -count=1 -run TestC17PendingBool ./sys/
//
// The cache entry's in-use mark is a bool that every release overwrites with false.  With a finite location
// TTL a request R1 that outlives the TTL loses its instance as soon as any other request for the location
// ends; the next request loads a second instance from storage, which does not have R1's write yet, and that
// instance is then served (until its own TTL passes) to requests that start after R1 was acknowledged.

import (
	"os"
	"sync"
	"testing"
	"time"

	. "github.com/Comcast/rulio/core"
	"github.com/Comcast/rulio/cron"
)

type c17Gate struct {
	arrived chan struct{}
	release chan struct{}
}

type c17Storage struct {
	Storage
	mu    sync.Mutex
	gates map[string]*c17Gate
	loads int
}

func (s *c17Storage) gate(key string) *c17Gate {
	g := &c17Gate{make(chan struct{}), make(chan struct{})}
	s.mu.Lock()
	s.gates[key] = g
	s.mu.Unlock()
	return g
}

func (s *c17Storage) Load(ctx *Context, loc string) ([]Pair, error) {
	s.mu.Lock()
	s.loads++
	s.mu.Unlock()
	return s.Storage.Load(ctx, loc)
}

func (s *c17Storage) Add(ctx *Context, loc string, p *Pair) error {
	key := string(p.K)
	s.mu.Lock()
	g := s.gates[key]
	delete(s.gates, key)
	s.mu.Unlock()
	if g != nil {
		close(g.arrived)
		<-g.release
	}
	return s.Storage.Add(ctx, loc, p)
}

func c17Run(t *testing.T, ttl time.Duration, linear bool) bool {
	os.Setenv("RULES_CRON_OVERRIDE", "1")
	newCtx := func() *Context { return BenchContext("c17") }
	conf := ExampleConfig()
	conf.UnindexedState = linear
	cont := ExampleSystemControl()
	cont.LocationTTL = ttl
	cont.DefaultLocControl = &Control{MaxFacts: 1000, Verbosity: NOTHING, NoTiming: true}
	cr, _ := cron.NewCron(nil, time.Second, "intcron", 1000000)
	sys, err := NewSystem(newCtx(), *conf, *cont, &cron.InternalCron{Cron: cr})
	if err != nil {
		t.Fatal(err)
	}
	mem, _ := NewMemStorage(newCtx())
	store := &c17Storage{Storage: mem, gates: make(map[string]*c17Gate)}
	sys.storage = store
	location := "home"
	if _, err = sys.AddRule(newCtx(), location, "r1", `{"when":{"pattern":{"arrived":"?who"}},"action":{"code":"1"}}`); err != nil {
		t.Fatal(err)
	}
	// R1: disable the rule; held at its storage write for longer than the TTL.
	g1 := store.gate("!r1.disabled")
	r1 := make(chan error, 1)
	go func() { r1 <- sys.EnableRule(newCtx(), location, "r1", false) }()
	select {
	case <-g1.arrived:
	case <-time.After(5 * time.Second):
		t.Fatal("R1 did not reach its storage write")
	}
	if ttl != Forever {
		time.Sleep(ttl + 50*time.Millisecond)
	}
	if !linear {
		// (with the indexed state R1 holds the state lock during its storage write: use requests that
		// do not need the state for R2; R3 only has to *load*)
	}
	// R2: any short request that does not touch the state: it ends, and its release evicts R1's instance.
	if _, err := sys.GetLastUpdatedMem(newCtx(), location); err != nil {
		t.Fatal(err)
	}
	// R3: another short request: loads a second instance from storage (without R1's write).
	if _, err := sys.GetLastUpdatedMem(newCtx(), location); err != nil {
		t.Fatal(err)
	}
	// R1 completes and is acknowledged.
	close(g1.release)
	if err = <-r1; err != nil {
		t.Fatalf("R1 failed: %v", err)
	}
	// R4 starts after the acknowledgement.
	enabled, err := sys.RuleEnabled(newCtx(), location, "r1")
	if err != nil {
		t.Fatal(err)
	}
	t.Logf("ttl=%v linear=%v: loads=%d, RuleEnabled after acknowledged disable = %v", ttl, linear, store.loads, enabled)
	return enabled
}

func TestC17PendingBool(t *testing.T) {
	for _, linear := range []bool{true, false} {
		if c17Run(t, Forever, linear) {
			t.Errorf("ttl forever linear=%v: stale", linear)
		}
		if c17Run(t, 300*time.Millisecond, linear) {
			t.Errorf("ttl 300ms linear=%v: EnableRule(r1,false) was acknowledged, a later RuleEnabled(r1) says enabled: the cache served a second instance that misses the write", linear)
		}
	}
}
