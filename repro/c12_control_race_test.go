package core

// Repro for C12 (copy into /repo/core; go test -race -run TestVerifControlRace).
// Before the fix: Location.Control stored the default control while holding only the read lock,
// so two concurrent requests on a fresh location race on loc.control (reported by -race).

import (
	"sync"
	"testing"
)

func TestVerifControlRace(t *testing.T) {
	for round := 0; round < 50; round++ {
		loc, err := NewLocation(NewContext("repro"), "c", nil, nil)
		if err != nil {
			t.Fatal(err)
		}
		loc.SetControl(nil) // as after a control reset: the next Control() installs the default
		var wg sync.WaitGroup
		for i := 0; i < 8; i++ {
			wg.Add(1)
			go func() {
				defer wg.Done()
				if loc.Control() == nil {
					t.Error("nil control")
				}
			}()
		}
		wg.Wait()
	}
}
