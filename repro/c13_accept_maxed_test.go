package service

// Run-time confirmation for the C13 finding NIL-ZERO-ARG (written by a sub-agent asked to look for violations in the
// unchanged tree; panics before the fix).  Copy into service/ and run
//
//   go test -mod=mod -vet=off -count=1 -run TestUnchangedAcceptWhenMaxed ./service/
//
// With a pending-request limit configured (/api/sys/admin/pending?max=N
// or HTTPService.SetMaxPending), Listener.Accept answers "too many"
// by calling tooMany(c) -- but 'c' is the (still nil) named result, no
// connection has been accepted yet.  bufio's Flush then calls Write on
// a nil net.Conn: a nil-pointer panic in the goroutine that runs
// http.Server.Serve (HTTPService.Start), i.e. the process dies as soon
// as N requests (to whatever locations) are in flight and the accept
// loop comes around.

import (
	"testing"

	"github.com/Comcast/rulio/core"
)

func TestUnchangedAcceptWhenMaxed(t *testing.T) {
	ctx := core.BenchContext("maxed")
	hs, err := NewHTTPService(ctx, &Service{})
	if err != nil {
		t.Fatal(err)
	}
	l, err := NewListener(ctx, hs, "127.0.0.1:0", false)
	if err != nil {
		t.Fatal(err)
	}
	defer l.Close()

	hs.SetMaxPending(1)
	hs.incPending(true) // One request (for some location) is being served.

	defer func() {
		if r := recover(); r != nil {
			t.Fatalf("Accept panicked instead of refusing the connection: %v", r)
		}
	}()

	if _, err = l.Accept(); err != TooManyConnections {
		t.Fatalf("unexpected %v", err)
	}
}
