package core

// Run-time confirmation for the C03/C04 finding QUERY-PURE on CodeQuery.Exec (from the round-5 C04 sub-agent's report;
// copy into core/ of a scratch copy):
//
//   go test -mod=mod -vet=off -count=1 -run TestVerifConditionCodeEvent ./core/
//
// CodeQuery.Exec called maybeCopyEvent on the incoming bindings: it replaced `?event` in the map that flows on by a copy,
// ran the script on that copy and passed the map on.  What the condition's script wrote to `event` was the event every
// action of the rule saw.

import (
	"encoding/json"
	"testing"
)

func TestVerifConditionCodeEvent(t *testing.T) {
	ctx := NewContext("repro")
	loc, err := NewLocation(ctx, "h", nil, nil)
	if err != nil {
		t.Fatal(err)
	}
	var rule Map
	json.Unmarshal([]byte(`{"when":{"pattern":{"wants":"?x"}},
	  "condition":{"code":"event.wants = 'changed'; event.extra = 1; true"},
	  "action":{"code":"[event.wants, typeof event.extra]"}}`), &rule)
	if _, err := loc.AddRule(ctx, "r", rule); err != nil {
		t.Fatal(err)
	}
	fr, cond := loc.ProcessEvent(ctx, Map{"wants": "beer"})
	if cond != nil {
		t.Fatal(cond.Msg)
	}
	js, _ := json.Marshal(fr.Values)
	if string(js) != `[["beer","undefined"]]` {
		t.Errorf("values %s, wanted [[\"beer\",\"undefined\"]]", js)
	}
}
