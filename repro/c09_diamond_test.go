package core

// Run-time confirmation for the C09 finding ANC-ONCE (copy into core/ of a scratch copy):
//
//   go test -mod=mod -vet=off -count=1 -run TestVerifDiamond ./core/
//
// doAncestors kept the path (for loop detection) but no visited set: an ancestor reachable over two parents was
// searched twice: inherited searches return its facts twice, and event dispatch fails with "duplicate id".

import "testing"

func TestVerifDiamond(t *testing.T) {
	ctx := NewContext("repro")
	locs := make(map[string]*Location)
	for _, name := range []string{"top", "left", "right", "bottom"} {
		loc, err := NewLocation(ctx, name, nil, nil)
		if err != nil {
			t.Fatal(err)
		}
		locs[name] = loc
	}
	provider := NewSimpleLocationProvider(locs)
	for _, loc := range locs {
		loc.Provider = provider
	}
	for name, parents := range map[string][]string{"left": {"top"}, "right": {"top"}, "bottom": {"left", "right"}} {
		if _, err := locs[name].SetParents(ctx, parents); err != nil {
			t.Fatal(err)
		}
	}
	if _, err := locs["top"].AddFact(ctx, "a", Map{"person": "homer"}); err != nil {
		t.Fatal(err)
	}
	srs, err := locs["bottom"].SearchFacts(ctx, Map{"person": "?who"}, true)
	if err != nil {
		t.Fatal(err)
	}
	if len(srs.Found) != 1 {
		t.Errorf("inherited search finds the grandparent's one fact %d times", len(srs.Found))
	}
	if _, err := locs["top"].AddRule(ctx, "r", Map{"when": map[string]interface{}{"pattern": map[string]interface{}{"ping": "?x"}}, "action": map[string]interface{}{"code": "1"}}); err != nil {
		t.Fatal(err)
	}
	fr, cond := locs["bottom"].ProcessEvent(ctx, Map{"ping": "pong"})
	if cond != nil {
		t.Errorf("event in a location with a diamond of parents: %v", cond.Msg)
	} else if len(fr.Children) != 1 {
		t.Errorf("event in a location with a diamond of parents: %d rules evaluated, wanted 1", len(fr.Children))
	}
}
