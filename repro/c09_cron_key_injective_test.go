// Run-time confirmation for CRON-KEY-INJ (C09 C11 C15; test body by the round-6 C09 sub-agent; copy into sys/):
//
//   go test -mod=mod -vet=off -count=1 -run TestVerifCronJobKeyCollision ./sys/
//
// 0d856d5 keyed the jobs of the shared in-memory cron by location + "\x00" + rule id.  Nothing keeps a NUL out of names
// or ids: ("a", "b\x00c") and ("a\x00b", "c") were one job.
package sys

import (
	"testing"
	"time"

	. "github.com/Comcast/rulio/core"
	"github.com/Comcast/rulio/cron"
)

// TestVerifCronJobKeyCollision: all locations of a System share the
// internal cron, which keys a job by location name + "\x00" + rule id.
// Neither a location name nor a rule id is kept from containing that
// character (in JSON: "\u0000"), so ("a", "b\x00c") and ("a\x00b",
// "c") are the same job: scheduling a rule in one location replaces
// the job of the other, and removing the rule in one location
// unschedules the other's.
func TestVerifCronJobKeyCollision(t *testing.T) {
	ctx := TestContext("c09")
	ctx.Verbosity = NOTHING
	conf := ExampleConfig()
	cont := ExampleSystemControl()
	cont.LocationTTL = Forever
	cont.DefaultLocControl = &Control{MaxFacts: 1000, Verbosity: NOTHING}
	cr, _ := cron.NewCron(nil, time.Second, "c09cron", 1000)
	go cr.Start(ctx)
	defer cr.Kill(ctx)
	s, err := NewSystem(ctx, *conf, *cont, &cron.InternalCron{Cron: cr})
	if err != nil {
		t.Fatal(err)
	}

	rule := `{"schedule":"0 0 1 1 *","action":{"code":"1"}}`

	if _, err = s.AddRule(ctx, "a", "b\x00c", rule); err != nil {
		t.Fatal(err)
	}
	if n := cr.PendingCount(); n != 1 {
		t.Fatalf("%d jobs, not 1", n)
	}
	if _, err = s.AddRule(ctx, "a\x00b", "c", rule); err != nil {
		t.Fatal(err)
	}
	if n := cr.PendingCount(); n != 2 {
		t.Errorf("two scheduled rules in two locations, but %d job(s)", n)
	}
	// Removing the rule of one location ...
	if _, err = s.RemRule(ctx, "a\x00b", "c"); err != nil {
		t.Fatal(err)
	}
	// ... must leave the other location's rule scheduled.
	if js, err := s.GetRule(ctx, "a", "b\x00c"); err != nil || js == "" {
		t.Fatalf("the other rule is gone: %v", err)
	}
	if n := cr.PendingCount(); n != 1 {
		t.Fatalf("location \"a\" still has its scheduled rule, but the cron has %d job(s) after a rule was removed in ANOTHER location", n)
	}
}
