package core

// Repros for C20 (copy into /repo/core; go test -run 'TestVerifBreaker').

import (
	"testing"
	"time"
)

// Before the fix: slide() advanced the clock to `now` on every call but shifted only whole ticks, so a
// breaker polled faster than interval/20 never aged anything out and stayed open forever.
func TestVerifBreakerPolledRecovers(t *testing.T) {
	b, err := NewOutboundBreaker(1, 200*time.Millisecond)
	if err != nil {
		t.Fatal(err)
	}
	if !b.Zap() {
		t.Fatal("first call should be admitted")
	}
	deadline := time.Now().Add(1500 * time.Millisecond)
	admitted := false
	for time.Now().Before(deadline) {
		if b.Zap() {
			admitted = true
			break
		}
		time.Sleep(2 * time.Millisecond)
	}
	if !admitted {
		t.Fatal("breaker polled every 2ms never admitted again although the first call aged out of the 200ms window long ago")
	}
}

// Before the fix: a disabled, open SimpleBreaker ran the function but reported "not attempted", so a
// Throttle retried and ran the submitted function once per attempt.
func TestVerifThrottleRunsOnce(t *testing.T) {
	sb := NewSimpleBreaker(func() (float64, error) { return 10, nil }, 1) // open: 10 >= 1
	sb.Disable(true)
	th, _ := NewThrottle(3, 10, time.Millisecond, sb)
	n := 0
	th.Submit(func() error { n++; return nil })
	if n != 1 {
		t.Fatalf("submitted function ran %d times", n)
	}
}
