package core

// Run-time confirmation for PREP-LOAD-TOLERANT (C13, C08) and EXP-TYPES-AGREE (C07), both reported by round-6 sub-agents
// as incomplete earlier repairs (copy into core/ of a scratch copy):
//
//   go test -mod=mod -vet=off -count=1 -run 'TestVerifLegacyVariableIdLoads|TestVerifExpiresInt' ./core/
//
// (1) 2b4c9c7 refused ids that start with '?' in PrepareFact, before the `loading` exemption: one stored record with such
// an id (written before that repair) made IndexedState.Load fail, and with it every request to the location.
// (2) 9c95924 gave the ttl switch of setExpires `int` and `int64` but not the expires switch: Map{"expires": int(..)}
// was refused.

import (
	"testing"
	"time"
)

func TestVerifLegacyVariableIdLoads(t *testing.T) {
	ctx := NewContext("repro")
	store, _ := NewMemStorage(ctx)
	// a record as an older version stored it
	if err := store.Add(ctx, "h", &Pair{[]byte("?x"), []byte(`{"likes":"tacos"}`)}); err != nil {
		t.Fatal(err)
	}
	state, _ := NewIndexedState(ctx, "h", store)
	loc := &Location{Name: "h"}
	loc.loading = true
	ctx.SetLoc(loc)
	if err := state.Load(ctx); err != nil {
		t.Fatalf("a location with a stored id '?x' cannot be loaded: %v", err)
	}
}

func TestVerifExpiresInt(t *testing.T) {
	for _, linear := range []bool{true, false} {
		ctx := NewContext("repro")
		store, _ := NewMemStorage(ctx)
		var state State
		if linear {
			state, _ = NewLinearState(ctx, "h", store)
		} else {
			state, _ = NewIndexedState(ctx, "h", store)
		}
		state.Load(ctx)
		if _, err := state.Add(ctx, "a", Map{"likes": "tacos", "ttl": 100}); err != nil {
			t.Fatal(err)
		}
		if _, err := state.Add(ctx, "b", Map{"likes": "chips", "expires": int(time.Now().Unix()) + 100}); err != nil {
			t.Errorf("linear=%v: ttl 100 (int) is accepted, expires now+100 (int) is refused: %v", linear, err)
			continue
		}
		if _, err := state.Get(ctx, "b"); err != nil {
			t.Errorf("linear=%v: the fact was stored and cannot be read: %v", linear, err)
		}
	}
}
