package core

// Repro for the C12 known finding CTX-SHARE (copy into /repo/core; go test -run TestVerifCtxSharePrivilege).
// The actions of one event run concurrently with one shared Context, and the lock-bypass privilege lives in the
// Context.  While action A sits inside the add hook (privileged, holding the state's write lock), action B's
// search skips the state lock instead of waiting.  The test FAILS on the pinned tree: that is the finding.

import (
	"testing"
	"time"
)

func TestVerifCtxSharePrivilege(t *testing.T) {
	ctx := NewContext("repro")
	out := make(chan interface{}, 8)
	ctx.AddValue("out", out)
	store, _ := NewMemStorage(ctx)
	st, _ := NewIndexedState(ctx, "p", store)
	entered := make(chan bool, 1)
	release := make(chan bool)
	st.AddHook(func(ctx *Context, s State, id string, fact Map, loading bool) error {
		if id == "slow" {
			entered <- true
			<-release
		}
		return nil
	})
	loc, err := NewLocation(ctx, "p", st, nil)
	if err != nil {
		t.Fatal(err)
	}
	rule := Map{"when": map[string]interface{}{"pattern": map[string]interface{}{"go": "?x"}},
		"actions": []interface{}{
			map[string]interface{}{"code": "Env.AddFact('slow', {a:'b'});"},
			map[string]interface{}{"code": "Env.sleep(300000000); Env.Search({a:'?x'}); Env.out('searched');"},
		}}
	if _, err := loc.AddRule(ctx, "r", rule); err != nil {
		t.Fatal(err)
	}
	go loc.ProcessEvent(ctx, Map{"go": "1"})
	select {
	case <-entered:
	case <-time.After(5 * time.Second):
		t.Fatal("hook never entered")
	}
	// action A now holds the write lock (inside the hook).  Action B must block on the read lock until we release A.
	select {
	case v := <-out:
		close(release)
		t.Fatalf("action B got through the state lock (%v) while action A held the write lock inside a hook", v)
	case <-time.After(1500 * time.Millisecond):
		close(release)
	}
}
