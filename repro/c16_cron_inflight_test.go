// Run-time confirmation for the C15/C16 finding CRON-INFLIGHT (tests by the round-5 C16 sub-agent; copy into cron/ of a
// scratch copy):
//
//   go test -mod=mod -vet=off -count=1 -run 'TestUnchangedRemWhileRunning|TestUnchangedReplaceWhileRunning' ./cron/
//
// While a recurring job's function runs, the job is in nobody's timeline.  A Rem in that window found nothing, and the
// job was put back after the tick and fired for ever; an Add of the same id in that window was evicted by the old job when
// it was put back.
package cron

import (
	"sync/atomic"
	"testing"
	"time"

	"github.com/Comcast/rulio/core"
)

func unchangedCron(t *testing.T, name string, pause time.Duration, limit int) (*core.Context, *Cron) {
	ctx := core.NewContext(name)
	c, err := NewCron(NewCronBroadcaster(), pause, name, limit)
	if err != nil {
		t.Fatal(err)
	}
	c.Start(ctx)
	for i := 0; c.Resume(ctx) != nil; i++ {
		if 2000 < i {
			t.Fatal("cron did not start")
		}
		time.Sleep(time.Millisecond)
	}
	return ctx, c
}

const unchangedEverySecond = "* * * * * * *"

// "a job removed before it is due never fires": Rem of a recurring job
// while the function of its previous occurrence is executing says "not
// found", and the job is put back on the timeline when the function
// returns.  It then fires forever.
func TestUnchangedRemWhileRunning(t *testing.T) {
	ctx, c := unchangedCron(t, "remrunning", time.Second, 10)
	defer c.Kill(ctx)

	var fired int64
	var first int32
	entered := make(chan bool, 1)
	release := make(chan bool)

	err := c.Add(ctx, "j", unchangedEverySecond, func(time.Time) error {
		atomic.AddInt64(&fired, 1)
		if atomic.CompareAndSwapInt32(&first, 0, 1) {
			entered <- true
			<-release
		}
		return nil
	})
	if err != nil {
		t.Fatal(err)
	}
	select {
	case <-entered:
	case <-time.After(5 * time.Second):
		t.Fatal("job did not fire")
	}

	// First occurrence is executing; the next one is not due yet.
	found, err := c.Rem(ctx, "j")
	if err != nil {
		t.Fatal(err)
	}
	if !found {
		t.Errorf("Rem did not find the (running, recurring) job")
	}
	close(release)
	time.Sleep(100 * time.Millisecond)
	before := atomic.LoadInt64(&fired)
	time.Sleep(2500 * time.Millisecond)
	if after := atomic.LoadInt64(&fired); after != before {
		t.Errorf("removed job fired %d more times", after-before)
	}
	if n := c.PendingCount(); n != 0 {
		t.Errorf("%d pending entries after Rem", n)
	}
}

// Replace (Add with the same id) of a recurring job while its function
// is executing: when the function returns, the old job removes the new
// one and takes its place.  So the replaced job keeps firing (it was
// removed by the replace, and no occurrence of it was due), and the new
// job never fires.
func TestUnchangedReplaceWhileRunning(t *testing.T) {
	ctx, c := unchangedCron(t, "replacerunning", time.Second, 10)
	defer c.Kill(ctx)

	var oldFired, newFired int64
	var first int32
	entered := make(chan bool, 1)
	release := make(chan bool)

	err := c.Add(ctx, "j", unchangedEverySecond, func(time.Time) error {
		atomic.AddInt64(&oldFired, 1)
		if atomic.CompareAndSwapInt32(&first, 0, 1) {
			entered <- true
			<-release
		}
		return nil
	})
	if err != nil {
		t.Fatal(err)
	}
	select {
	case <-entered:
	case <-time.After(5 * time.Second):
		t.Fatal("job did not fire")
	}

	// A one-shot replacement due in a second.
	err = c.Add(ctx, "j", "+1s", func(time.Time) error {
		atomic.AddInt64(&newFired, 1)
		return nil
	})
	if err != nil {
		t.Fatal(err)
	}
	close(release)
	time.Sleep(100 * time.Millisecond)
	before := atomic.LoadInt64(&oldFired)
	time.Sleep(2500 * time.Millisecond)

	if after := atomic.LoadInt64(&oldFired); after != before {
		t.Errorf("replaced job fired %d more times", after-before)
	}
	if n := atomic.LoadInt64(&newFired); n != 1 {
		t.Errorf("one-shot replacement fired %d times", n)
	}
}
