package core

// Run-time confirmation for CODE-BINDINGS-OWN (C03, C04; history by the round-7 C03 sub-agent): a `code` condition got a
// bindings map of its own (806c0c5) but the bound objects in it were the incoming bindings' own: a script that writes to
// a bound object changed it for the sibling bindings that share it, and for the terms that come after.

import (
	"encoding/json"
	"fmt"
	"testing"
)

func TestVerifCodeConditionDoesNotChangeBindings(t *testing.T) {
	for _, indexed := range []bool{false, true} {
		name := fmt.Sprintf("codewrites-%v", indexed)
		ctx := NewContext(name)
		ctx.Verbosity = NOTHING
		var state State
		if indexed {
			store, _ := NewMemStorage(ctx)
			s, err := NewIndexedState(ctx, name, store)
			if err != nil {
				t.Fatal(err)
			}
			state = s
		}
		loc, err := NewLocation(ctx, name, state, nil)
		if err != nil {
			t.Fatal(err)
		}
		for _, fact := range []string{`{"cfg":{"limit":1}}`, `{"item":"a"}`, `{"item":"b"}`, `{"item":"c"}`} {
			var m map[string]interface{}
			json.Unmarshal([]byte(fact), &m)
			if _, err := loc.AddFact(ctx, "", Map(m)); err != nil {
				t.Fatal(err)
			}
		}
		// Each of the three bindings has ?c = {"limit":1}: for each of them the script counts to 1, which is within
		// the limit, so all three are kept.
		qr, err := loc.Query(ctx, `{"and":[{"pattern":{"cfg":"?c"}},{"pattern":{"item":"?i"}},`+
			`{"code":"c.count = (c.count || 0) + 1; c.count <= c.limit"}]}`)
		if err != nil {
			t.Fatal(err)
		}
		if len(qr.Bss) != 3 {
			t.Errorf("indexed=%v: siblings: kept %d bindings of 3", indexed, len(qr.Bss))
		}
		// A script whose value is true keeps the bindings it was given: ?c = {"limit":1}, which the stored fact
		// still matches in the next term.
		qr, err = loc.Query(ctx, `{"and":[{"pattern":{"cfg":"?c"}},{"code":"c.limit = 5; true"},{"pattern":{"cfg":"?c"}}]}`)
		if err != nil {
			t.Fatal(err)
		}
		if len(qr.Bss) != 1 {
			t.Errorf("indexed=%v: the condition changed the binding it was to judge: %d results, want 1", indexed, len(qr.Bss))
		}
	}
}
