package cron

// Run-time confirmation for the C13/C15 finding HOOK-LOAD-TOLERANT (from the round-5 C13 sub-agent's report; copy into
// cron/ of a scratch copy):
//
//   go test -mod=mod -vet=off -count=1 -run TestVerifPastScheduleLoad ./cron/
//
// Since repair 32e5cd2 the cron refuses to schedule an expression with no occurrence left.  The add hook handed that
// error on also while a location was being loaded: a stored rule whose dated expression has passed made every later
// load of its location fail — in every process, for good.  A consequence of my own repair, found by a part-B report.

import (
	"testing"
	"time"

	"github.com/Comcast/rulio/core"
)

func TestVerifPastScheduleLoad(t *testing.T) {
	for _, linear := range []bool{true, false} {
		ctx := core.NewContext("repro")
		store, _ := core.NewMemStorage(ctx)
		// as stored while the expression still had an occurrence
		store.Add(ctx, "h", &core.Pair{K: []byte("r"), V: []byte(`{"rule":{"schedule":"0 0 0 1 1 * 2015","action":{"code":"1"}}}`)})
		store.Add(ctx, "h", &core.Pair{K: []byte("f"), V: []byte(`{"likes":"tacos"}`)})
		var state core.State
		if linear {
			state, _ = core.NewLinearState(ctx, "h", store)
		} else {
			state, _ = core.NewIndexedState(ctx, "h", store)
		}
		c, _ := NewCron(nil, time.Second, "past", 1000)
		go c.Start(ctx)
		AddHooks(ctx, &InternalCron{Cron: c}, state)
		loc, err := core.NewLocation(ctx, "h", state, nil)
		if err != nil {
			t.Errorf("linear=%v: the location cannot be loaded: %v", linear, err)
			c.Kill(ctx)
			continue
		}
		if srs, err := loc.SearchFacts(ctx, core.Map{"likes": "?x"}, false); err != nil || len(srs.Found) != 1 {
			t.Errorf("linear=%v: search after load: %v %v", linear, srs, err)
		}
		c.Kill(ctx)
	}
}
