package cron

// Run-time confirmation for the C13 finding PARSE-RECOVER (from the round-5 C13 sub-agent's report; copy into cron/ of a
// scratch copy):
//
//   go test -mod=mod -vet=off -count=1 -run TestVerifCronexprPanic ./cron/
//
// cronexpr.Parse panics (index out of range) on a reversed range such as "1-0 * * * *".  The schedule of a rule is
// client input: the panic went up through Cron.Add, the add hook, State.Add, System.AddRule and /api/loc/rules/add.

import (
	"testing"
	"time"
)

func TestVerifCronexprPanic(t *testing.T) {
	c, err := NewCron(nil, time.Second, "parse", 1000)
	if err != nil {
		t.Fatal(err)
	}
	defer func() {
		if caught := recover(); caught != nil {
			t.Errorf("Cron.Add panicked: %v", caught)
		}
	}()
	if err := c.Add(nil, "j", "1-0 * * * *", func(time.Time) error { return nil }); err == nil {
		t.Errorf("a reversed range was accepted")
	}
}
