package core

// Run-time confirmation for the every-kind clause of PROP-DW-ANY (C08; round-7 part B, C08 #1): 9bfcfcd gave a property
// its target "whether or not it names others" — but only when what it names others with is a list.
// {"id":"r1","!note":"n","deleteWith":"lease"} (a client that thinks one id needs no list) was stored without its
// target and survived r1, in memory and in storage.  After the repair the given value and the target are a list; and
// removing what the value named ("lease") takes the property along, as the writer meant.

import "testing"

func TestVerifPropertyDeleteWithNoList(t *testing.T) {
	for _, linear := range []bool{true, false} {
		for _, given := range []interface{}{"lease", 7.0, map[string]interface{}{"lease": true}} {
			ctx := NewContext("repro")
			store, _ := NewMemStorage(ctx)
			var state State
			if linear {
				state, _ = NewLinearState(ctx, "h", store)
			} else {
				state, _ = NewIndexedState(ctx, "h", store)
			}
			if err := state.Load(ctx); err != nil {
				t.Fatal(err)
			}
			state.Add(ctx, "r1", Map{"likes": "tacos"})
			if _, err := state.Add(ctx, "", Map{"id": "r1", "!note": "n", "deleteWith": given}); err != nil {
				continue // a refusal would do, too
			}
			state.Rem(ctx, "r1")
			if _, found, _ := GetProp(ctx, state, "r1", "note", nil); found {
				t.Errorf("linear=%v: the property `note` of r1 (deleteWith %#v) survived r1", linear, given)
			}
			pairs, _ := store.Load(ctx, "h")
			for _, p := range pairs {
				if string(p.K) == "!r1.note" {
					t.Errorf("linear=%v: the property `note` of r1 (deleteWith %#v) is still in storage", linear, given)
				}
			}
		}
	}
}
