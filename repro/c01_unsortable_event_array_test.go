package core

// Run-time confirmation for the C01/C04 finding IDX-SORT-TOTAL (copy into core/ of a scratch copy):
//
//   go test -mod=mod -vet=off -count=1 -run TestVerifUnsortableEventArray ./core/
//
// KNOWN FINDING, not repaired (the existing test TestPatternStoreSearchBadArray pins the error; a repair that orders
// such arrays kind by kind was written and passes this test, but fails that one).
//
// PatternIndex.searchPairs gave up (returned SortValues' error) on an event array with two or more members that are
// not all strings / all numbers / all booleans, as soon as some rule mentions the array's key: FindRules failed and no
// rule at all was evaluated for the event, also not the rules that have nothing to do with that key.

import "testing"

func TestVerifUnsortableEventArray(t *testing.T) {
	for _, linear := range []bool{true, false} {
		ctx := NewContext("repro")
		store, _ := NewMemStorage(ctx)
		var state State
		if linear {
			state, _ = NewLinearState(ctx, "h", store)
		} else {
			state, _ = NewIndexedState(ctx, "h", store)
		}
		loc, err := NewLocation(ctx, "h", state, nil)
		if err != nil {
			t.Fatal(err)
		}
		rules := map[string]map[string]interface{}{
			"item":  {"things": []interface{}{map[string]interface{}{"a": "?x"}}},
			"other": {"kind": "k"},
			"mixed": {"tags": []interface{}{"a", "b"}},
		}
		for id, pat := range rules {
			rule := Map{"when": map[string]interface{}{"pattern": pat}, "action": map[string]interface{}{"code": "1"}}
			if _, err := loc.AddRule(ctx, id, rule); err != nil {
				t.Fatal(err)
			}
		}
		event := Map{
			"things": []interface{}{map[string]interface{}{"a": 1.0}, map[string]interface{}{"a": 2.0}},
			"tags":   []interface{}{"b", 7.0, "a"},
			"kind":   "k",
		}
		fr, cond := loc.ProcessEvent(ctx, event)
		if cond != nil {
			t.Errorf("linear=%v: %s", linear, cond.Msg)
			continue
		}
		got := map[string]bool{}
		for _, c := range fr.Children {
			got[c.Rule.Id] = true
		}
		for id := range rules {
			if !got[id] {
				t.Errorf("linear=%v: rule %s was not evaluated (evaluated: %v)", linear, id, got)
			}
		}
	}
}
