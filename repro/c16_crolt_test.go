package main

// Repros for C16 (copy into /repo/crolt; go test -run TestVerifCrolt).

import (
	"bytes"
	"io/ioutil"
	"os"
	"sync"
	"testing"
	"time"

	"github.com/boltdb/bolt"
)

func verifCron(t *testing.T) (*Cron, func()) {
	f, _ := ioutil.TempFile("", "verifcrolt")
	name := f.Name()
	f.Close()
	os.Remove(name)
	db, err := bolt.Open(name, 0600, nil)
	if err != nil {
		t.Fatal(err)
	}
	c, err := NewCron(db, 1, 0, time.Hour)
	if err != nil {
		t.Fatal(err)
	}
	return c, func() { db.Close(); os.Remove(name) }
}

// Before the fix: Add tested for existence in a View and inserted in a later Update, so concurrent Adds of one
// job id could all pass the check: the later ones overwrote the job and left several time entries for one id.
func TestVerifCroltConcurrentAdd(t *testing.T) {
	c, done := verifCron(t)
	defer done()
	for round := 0; round < 30; round++ {
		id := "j" + time.Now().Format("150405.000000") + string(rune('a'+round%26))
		var wg sync.WaitGroup
		oks := make([]bool, 8)
		for i := 0; i < 8; i++ {
			wg.Add(1)
			go func(i int) {
				defer wg.Done()
				j := &Job{Account: "acct", Id: id, Expression: "1h"}
				if err := c.Add(j); err == nil {
					oks[i] = true
				}
			}(i)
		}
		wg.Wait()
		n := 0
		for _, ok := range oks {
			if ok {
				n++
			}
		}
		if n != 1 {
			t.Fatalf("round %d: %d concurrent Adds of one job id succeeded", round, n)
		}
	}
}

// The finding recorded as KEY-FIXEDWIDTH: RFC3339Nano drops trailing zeros, so byte order is not time order.
func TestVerifCroltKeyOrder(t *testing.T) {
	a := time.Date(2026, 1, 1, 0, 0, 5, 250000000, time.UTC) // 05.25
	b := time.Date(2026, 1, 1, 0, 0, 5, 200000000, time.UTC) // 05.2  (earlier)
	ka, kb := []byte(a.Format(time.RFC3339Nano)), []byte(b.Format(time.RFC3339Nano))
	if a.After(b) && bytes.Compare(ka, kb) <= 0 {
		t.Logf("KNOWN FINDING: %s is later than %s but sorts before it", ka, kb)
	}
}
