package cron

// Run-time confirmation for the C15/C16 finding CRON-TIMER-REARM (copy to cron/ of a scratch copy of the repository):
//
//   go test -mod=mod -vet=off -count=1 -run TestVerifTimerRearm ./cron/
//
// The cron loop re-arms its timer only when the head job was due.  If the job the timer was set for is removed
// before it is due, the timer still fires at that job's time, finds a head that is not due yet, and is never armed
// again: every pending job (of every location that shares the cron) waits until somebody schedules something.

import (
	"sync/atomic"
	"testing"
	"time"
)

func TestVerifTimerRearm(t *testing.T) {
	c, err := NewCron(nil, time.Second, "rearm", 1000)
	if err != nil {
		t.Fatal(err)
	}
	go c.Start(nil)
	defer c.Kill(nil)
	time.Sleep(100 * time.Millisecond)
	var fired int32
	if err := c.Add(nil, "a", "+1s", func(time.Time) error { return nil }); err != nil {
		t.Fatal(err)
	}
	if err := c.Add(nil, "b", "+3s", func(time.Time) error { atomic.AddInt32(&fired, 1); return nil }); err != nil {
		t.Fatal(err)
	}
	time.Sleep(200 * time.Millisecond)
	if ok, err := c.Rem(nil, "a"); !ok || err != nil {
		t.Fatalf("Rem(a): %v %v", ok, err)
	}
	time.Sleep(4500 * time.Millisecond)
	if atomic.LoadInt32(&fired) != 1 {
		t.Errorf("job b (due after 3s) fired %d times within 4.7s after the job ahead of it was removed; pending=%d", fired, c.PendingCount())
	}
}
