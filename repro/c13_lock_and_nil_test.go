package core

// Repros for C13 (copy into /repo/core; go test -run TestVerifC13b).

import (
	"testing"
	"time"
)

// Before the fix: url.Parse failed, the error was only logged, and u.Host dereferenced a nil *url.URL.
// From a rule action (Env.http) that panic is not recovered by anybody: the process dies.
func TestVerifC13bBreakerLookupBadURL(t *testing.T) {
	defer func() {
		if x := recover(); x != nil {
			t.Fatalf("getHTTPBreaker panicked: %v", x)
		}
	}()
	if b := getHTTPBreaker(NewContext("repro"), "http://%zz/"); b != nil {
		t.Fatal("unexpected breaker")
	}
}

// Before the fix: IndexedState.Add released the state lock by a plain call after running the add hook; a hook
// that panics (it is code outside rulio's control) left the location locked forever.
func TestVerifC13bHookPanicDoesNotPoison(t *testing.T) {
	ctx := NewContext("repro")
	store, _ := NewMemStorage(ctx)
	st, _ := NewIndexedState(ctx, "h", store)
	boom := true
	st.AddHook(func(ctx *Context, s State, id string, fact Map, loading bool) error {
		if boom {
			panic("hook exploded")
		}
		return nil
	})
	loc, err := NewLocation(ctx, "h", st, nil)
	if err != nil {
		t.Fatal(err)
	}
	func() {
		defer func() { recover() }()
		loc.AddFact(ctx, "a", Map{"x": "y"})
	}()
	boom = false
	done := make(chan error, 1)
	go func() {
		_, err := loc.AddFact(NewContext("other"), "b", Map{"x": "z"})
		done <- err
	}()
	select {
	case err := <-done:
		if err != nil {
			t.Fatal(err)
		}
	case <-time.After(3 * time.Second):
		t.Fatal("location is blocked after a hook panicked")
	}
}
