package cron

// Run-time confirmation for JOB-FLAG-LOCKED (C16); run with -race.  `Rem` marks a job whose Fn is running as cancelled,
// under the cron's mutex (c00a6d1).  `run` and `schedule` copied the whole job into their log record (`"job", *job`)
// without the mutex, in the job's own goroutine: a data race between a removal and a tick (the race detector reports
// it; behaviourally only the log record is affected).
//
// (Found by the round-7 sub-agent for C16 with a stress test; this is the two-goroutine core of it.)

import (
	"testing"
	"time"

	"github.com/Comcast/rulio/core"
)

func TestVerifRemWhileTheJobRunsIsNoRace(t *testing.T) {
	ctx := core.NewContext("verif")
	ctx.Verbosity = core.NOTHING
	b := NewCronBroadcaster()
	c, err := NewCron(b, 5*time.Millisecond, "verif", 1000)
	if err != nil {
		t.Fatal(err)
	}
	c.Start(ctx)
	time.Sleep(10 * time.Millisecond)
	for i := 0; i < 40; i++ {
		running := make(chan bool, 1)
		release := make(chan bool)
		// recurring: after Fn, 'run' goes on to 'schedule', which logs the job again
		if err := c.Add(ctx, "j", "* * * * * * *", func(time.Time) error {
			select {
			case running <- true:
			default:
			}
			<-release
			return nil
		}); err != nil {
			t.Fatal(err)
		}
		select {
		case <-running:
		case <-time.After(3 * time.Second):
			t.Fatal("the job did not fire")
		}
		done := make(chan bool)
		go func() {
			c.Rem(ctx, "j") // writes job.cancelled under the lock ...
			done <- true
		}()
		close(release) // ... while the job's goroutine comes back from Fn and re-schedules itself
		<-done
		time.Sleep(2 * time.Millisecond)
		if i >= 3 {
			break // each round waits for a full second boundary; a few are enough for the detector
		}
	}
}
