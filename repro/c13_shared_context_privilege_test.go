// Run-time confirmation for PRIV-LOCAL and CTX-PER-GOROUTINE (C12, C13, C09, C11, C15; the test bodies are the round-6 C13
// sub-agent's; copy into sys/ of a scratch copy; each test kills or wedges the test binary on the tree before the repair):
//
//   go test -mod=mod -vet=off -count=1 -run TestVerifSharedContextConcurrentActions ./sys/
//   go test -mod=mod -vet=off -count=1 -timeout 5m -run TestVerifSharedContextImmediateSchedule ./sys/
//
// While IndexedState ran a state hook it marked the *request's* Context as privileged, and slock/sunlock skip the state
// lock for a marked Context.  A Context is shared between goroutines (the concurrently run actions of a rule; the ticks
// of every scheduled rule that one request loaded): a sibling skipped the lock its brother held and, when the mark was
// gone by the time it was done, unlocked it: `fatal error: sync: Unlock of unlocked RWMutex` from one well-formed rule
// with two actions that write facts.
package sys

import (
	"fmt"
	"testing"
	"time"

	. "github.com/Comcast/rulio/core"
)

func TestVerifSharedContextConcurrentActions(t *testing.T) {
	sys, ctx := SystemForTest("TestVerifSharedContextConcurrentActions")
	defer sys.Close(ctx)
	ctx.Verbosity = NOTHING
	location := "there"

	code := func(prefix string) string {
		return fmt.Sprintf(`for (var i = 0; i < 100; i++) { Env.AddFact('%s'+i, {n: i, from: '%s'}); } 'done'`, prefix, prefix)
	}
	rule := fmt.Sprintf(`{"when":{"pattern":{"go":"?x"}},"actions":[{"code":%q},{"code":%q},{"code":%q},{"code":%q}]}`,
		code("a"), code("b"), code("c"), code("d"))
	if _, err := sys.AddRule(ctx, location, "r", rule); err != nil {
		t.Fatal(err)
	}

	done := make(chan error, 1)
	go func() {
		_, err := sys.ProcessEvent(ctx, location, `{"go":1}`)
		done <- err
	}()
	select {
	case err := <-done:
		if err != nil {
			t.Fatal(err)
		}
	case <-time.After(60 * time.Second):
		t.Fatal("the event does not come back (state lock leaked)")
	}

	n, err := sys.GetSize(ctx, location)
	if err != nil {
		t.Fatal(err)
	}
	if n != 401 {
		t.Fatalf("expected 400 facts and a rule, have %d", n)
	}
}

func TestVerifSharedContextImmediateSchedule(t *testing.T) {
	sys, ctx := SystemForTest("TestVerifSharedContextImmediateSchedule")
	defer sys.Close(ctx)
	ctx.Verbosity = NOTHING
	location := "there"

	deadline := time.After(40 * time.Second)
	for i := 0; i < 20000; i++ {
		// A Context per request, as the HTTP service has.
		c := ctx.SubContext()
		id := fmt.Sprintf("r%d", i)
		done := make(chan error, 1)
		go func() {
			_, err := sys.AddRule(c, location, id, `{"schedule":"+0s","action":{"code":"1"}}`)
			done <- err
		}()
		select {
		case err := <-done:
			if err != nil {
				t.Fatalf("rule %d: %v", i, err)
			}
		case <-time.After(20 * time.Second):
			t.Fatalf("rule %d: AddRule does not come back (state lock leaked)", i)
		case <-deadline:
			return
		}
	}
}
