package core

// Run-time confirmation for the C07 findings EXP-TTL-RELATIVE and EXP-CANON-FIRST (from the round-4 C07 sub-agent's
// report; copy into core/ of a scratch copy):
//
//   go test -mod=mod -vet=off -count=1 -run TestVerifTTLInt64AndRFC3339Rule ./core/
//
// (a) setExpires took an int64 ttl as the absolute expiration (`case int64: expires = vv`): AddFact with ttl int64(5)
//     was refused as expired.  (b) Location.AddRule validated the rule map (RuleFromMap: Rule.Expires is a float64)
//     before setExpires turned an RFC3339 `expires` into a number: such a rule was refused.

import (
	"testing"
	"time"
)

func TestVerifTTLInt64AndRFC3339Rule(t *testing.T) {
	for _, linear := range []bool{true, false} {
		ctx := NewContext("repro")
		store, _ := NewMemStorage(ctx)
		var state State
		if linear {
			state, _ = NewLinearState(ctx, "h", store)
		} else {
			state, _ = NewIndexedState(ctx, "h", store)
		}
		loc, err := NewLocation(ctx, "h", state, nil)
		if err != nil {
			t.Fatal(err)
		}
		if _, err := loc.AddFact(ctx, "f", Map{"likes": "tacos", "ttl": int64(5)}); err != nil {
			t.Errorf("linear=%v: AddFact with ttl int64(5): %v", linear, err)
		}
		when := time.Now().Add(time.Hour).UTC().Format(time.RFC3339)
		rule := Map{"when": map[string]interface{}{"pattern": map[string]interface{}{"a": "?x"}}, "action": map[string]interface{}{"code": "1"}, "expires": when}
		if _, err := loc.AddRule(ctx, "r", rule); err != nil {
			t.Errorf("linear=%v: AddRule with RFC3339 expires: %v", linear, err)
		}
	}
}
