package core

// Run-time confirmation for the C20 finding BRK-ADJUST (test by the round-4 C20 sub-agent; copy into core/ of a scratch
// copy):
//
//   go test -mod=mod -vet=off -count=1 -run TestVerifBreakerAdjustForgets ./core/
//
// Adjust -> init re-allocated `counts`: any Adjust, even with the same limit and interval, forgot the calls in the window.

import (
	"testing"
	"time"
)

func TestVerifBreakerAdjustForgets(t *testing.T) {
	const limit = 3
	b, err := NewOutboundBreaker(limit, time.Hour)
	if err != nil {
		t.Fatal(err)
	}
	admitted := 0
	for i := 0; i < limit+2; i++ {
		if b.Zap() {
			admitted++
		}
	}
	if err := b.Adjust(limit, time.Hour); err != nil {
		t.Fatal(err)
	}
	for i := 0; i < limit+2; i++ {
		if b.Zap() {
			admitted++
		}
	}
	if limit < admitted {
		t.Fatalf("limit %d per hour, %d calls admitted within milliseconds", limit, admitted)
	}
}

// BRK-ADJUST (carry clause): an Adjust that changes the interval built a new, empty window: 3 per second before and 3 per
// two seconds after admitted 6 calls back to back.
func TestVerifBreakerAdjustIntervalCarries(t *testing.T) {
	const limit = 3
	b, err := NewOutboundBreaker(limit, time.Second)
	if err != nil {
		t.Fatal(err)
	}
	admitted := 0
	for i := 0; i < limit+2; i++ {
		if b.Zap() {
			admitted++
		}
	}
	if err := b.Adjust(limit, 2*time.Second); err != nil {
		t.Fatal(err)
	}
	for i := 0; i < limit+2; i++ {
		if b.Zap() {
			admitted++
		}
	}
	if limit < admitted {
		t.Fatalf("limit %d per 1s, then per 2s: %d calls admitted within milliseconds", limit, admitted)
	}
}
