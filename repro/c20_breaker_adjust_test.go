package core

// Run-time confirmation for the C20 finding BRK-ADJUST (test by the round-4 C20 sub-agent; copy into core/ of a scratch
// copy):
//
//   go test -mod=mod -vet=off -count=1 -run TestVerifBreakerAdjustForgets ./core/
//
// Adjust -> init re-allocated `counts`: any Adjust, even with the same limit and interval, forgot the calls in the window.

import (
	"testing"
	"time"
)

func TestVerifBreakerAdjustForgets(t *testing.T) {
	const limit = 3
	b, err := NewOutboundBreaker(limit, time.Hour)
	if err != nil {
		t.Fatal(err)
	}
	admitted := 0
	for i := 0; i < limit+2; i++ {
		if b.Zap() {
			admitted++
		}
	}
	if err := b.Adjust(limit, time.Hour); err != nil {
		t.Fatal(err)
	}
	for i := 0; i < limit+2; i++ {
		if b.Zap() {
			admitted++
		}
	}
	if limit < admitted {
		t.Fatalf("limit %d per hour, %d calls admitted within milliseconds", limit, admitted)
	}
}

// BRK-ADJUST (carry clause): an Adjust that changes the interval built a new, empty window: 3 per second before and 3 per
// two seconds after admitted 6 calls back to back.
func TestVerifBreakerAdjustIntervalCarries(t *testing.T) {
	const limit = 3
	b, err := NewOutboundBreaker(limit, time.Second)
	if err != nil {
		t.Fatal(err)
	}
	admitted := 0
	for i := 0; i < limit+2; i++ {
		if b.Zap() {
			admitted++
		}
	}
	if err := b.Adjust(limit, 2*time.Second); err != nil {
		t.Fatal(err)
	}
	for i := 0; i < limit+2; i++ {
		if b.Zap() {
			admitted++
		}
	}
	if limit < admitted {
		t.Fatalf("limit %d per 1s, then per 2s: %d calls admitted within milliseconds", limit, admitted)
	}
}

// The carry (c6b9a1a) summed the old window as it was when it was last used (reported by the round-6 C20 sub-agent):
// calls that aged out long ago were carried into the new window as if they had just happened, and an idle breaker
// refused for a whole new interval after an Adjust although no call falls inside either window.
func TestVerifBreakerAdjustDoesNotCarryAgedCalls(t *testing.T) {
	const limit = 2
	b, err := NewOutboundBreaker(limit, 200*time.Millisecond)
	if err != nil {
		t.Fatal(err)
	}
	for i := 0; i < limit; i++ {
		if !b.Zap() {
			t.Fatal("fresh breaker refuses")
		}
	}
	time.Sleep(500 * time.Millisecond) // more than two intervals: nothing is in the window
	if err := b.Adjust(limit, 400*time.Millisecond); err != nil {
		t.Fatal(err)
	}
	if !b.Zap() {
		t.Fatalf("after 500ms of silence (interval 200ms) an Adjust to 400ms made the breaker refuse")
	}
}
