package core

// Run-time confirmation for ACTION-BINDINGS-OWN (C04, C12): the actions of one rule run concurrently, and every
// structured value bound by the rule's `when` was one Go map in all of them.  An action that annotates the bound object
// and a sibling that looks at it end the process with "fatal error: concurrent map read and map write" (not a panic:
// the recover in RunJavascript cannot catch it) — one ordinary event, no second client.  After the repair each action
// works on a copy, and (C04) the sibling sees the object as the event bound it.
//
// (History found by the round-7 sub-agent for C12; see seeded/UNCHANGED/C12/round7.)

import "testing"

func TestVerifActionsDoNotShareBoundObjects(t *testing.T) {
	ctx := NewContext("verif")
	ctx.Verbosity = NOTHING
	store, _ := NewMemStorage(ctx)
	state, err := NewIndexedState(ctx, "sharedbindings", store)
	if err != nil {
		t.Fatal(err)
	}
	ctl := DefaultControl()
	ctl.Verbosity = NOTHING
	ctl.NoTiming = true
	loc, err := NewLocation(ctx, "sharedbindings", state, ctl)
	if err != nil {
		t.Fatal(err)
	}
	if _, err := loc.AddRule(ctx, "r1", Map{
		"when": map[string]interface{}{"pattern": map[string]interface{}{"order": "?o"}},
		"actions": []interface{}{
			map[string]interface{}{"code": "for (var i = 0; i < 3000; i++) { o['k' + i] = i; } 1;"},
			map[string]interface{}{"code": "var n = 0; for (var r = 0; r < 20; r++) { for (var i = 1; i < 3000; i++) { if (o['k' + i]) { n++; } } } n;"},
		},
	}); err != nil {
		t.Fatal(err)
	}
	for round := 0; round < 5; round++ {
		fr, cond := loc.ProcessEvent(ctx, Map{"order": map[string]interface{}{"item": "tacos"}})
		if cond != nil {
			t.Fatal(cond)
		}
		if len(fr.Values) != 2 {
			t.Fatalf("values: %#v", fr.Values)
		}
		for _, v := range fr.Values {
			// the looking action counts what the annotating one wrote: nothing, if they are independent
			if f, is := v.(float64); is && f != 1 && f != 0 {
				t.Fatalf("the second action saw %v annotations of the first", f)
			}
			if i, is := v.(int64); is && i != 1 && i != 0 {
				t.Fatalf("the second action saw %v annotations of the first", i)
			}
		}
	}
}
