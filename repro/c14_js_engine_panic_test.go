package core

// Run-time confirmation for the C13/C14 finding RECOVER-ALL (from the round-5 C14 and C19 sub-agents' reports; copy into
// core/ of a scratch copy):
//
//   go test -mod=mod -vet=off -count=1 -run TestVerifJSEnginePanic ./core/
//
// A script that touches Env.Context.<anything> makes otto panic ("reflect: NumField of non-struct type
// context.Context").  RunJavascript only recovered its own timeout signal and re-panicked everything else: the caller got
// a panic instead of a failed node, and in the goroutine of a concurrently executed action the panic ended the process.

import "testing"

func TestVerifJSEnginePanic(t *testing.T) {
	ctx := NewContext("repro")
	loc, err := NewLocation(ctx, "h", nil, nil)
	if err != nil {
		t.Fatal(err)
	}
	ctx.SetLoc(loc)
	defer func() {
		if caught := recover(); caught != nil {
			t.Errorf("RunJavascript panicked: %v", caught)
		}
	}()
	if _, err := RunJavascript(ctx, nil, nil, "Env.Context.x"); err == nil {
		t.Errorf("the script failed inside the engine, RunJavascript reported success")
	}
}
