// Run-time confirmation for the C16 findings CRON-LIMIT-FIRST, LOCK-SEND and CRON-START-ARMS (tests by the round-5 C16
// sub-agent; copy into cron/ of a scratch copy; takes about 15 s):
//
//   go test -mod=mod -vet=off -count=1 -run 'TestUnchangedRefusedReplaceDropsJob|TestUnchangedPauseDeadlock|TestUnchangedKillStart' ./cron/
//
// A replace refused by the capacity limit had already removed the old job; commands were sent to the loop with the lock
// held (the eleventh during a pause deadlocked everything); a loop started again after Kill never armed its timer.
package cron

import (
	"sync/atomic"
	"testing"
	"time"

	"github.com/Comcast/rulio/core"
)

func unchangedCron2(t *testing.T, name string, pause time.Duration, limit int) (*core.Context, *Cron) {
	ctx := core.NewContext(name)
	c, err := NewCron(NewCronBroadcaster(), pause, name, limit)
	if err != nil {
		t.Fatal(err)
	}
	c.Start(ctx)
	for i := 0; c.Resume(ctx) != nil; i++ {
		if 2000 < i {
			t.Fatal("cron did not start")
		}
		time.Sleep(time.Millisecond)
	}
	return ctx, c
}

const unchangedEverySecond2 = "* * * * * * *"

// "a one-shot job fires exactly once", after a refused operation: a
// replace that is refused because of the capacity limit has already
// removed the job it was going to replace.  (The timeline can be over
// the limit because recurring jobs are put back without a check.)
func TestUnchangedRefusedReplaceDropsJob(t *testing.T) {
	ctx, c := unchangedCron2(t, "refused", time.Second, 1)
	defer c.Kill(ctx)

	var first int32
	entered := make(chan bool, 1)
	release := make(chan bool)
	err := c.Add(ctx, "a", unchangedEverySecond2, func(time.Time) error {
		if atomic.CompareAndSwapInt32(&first, 0, 1) {
			entered <- true
			<-release
		}
		return nil
	})
	if err != nil {
		t.Fatal(err)
	}
	select {
	case <-entered:
	case <-time.After(5 * time.Second):
		t.Fatal("job did not fire")
	}

	// "a" is off the timeline while it runs, so there is room for "b".
	var fired int64
	b := func(time.Time) error {
		atomic.AddInt64(&fired, 1)
		return nil
	}
	if err = c.Add(ctx, "b", "+2s", b); err != nil {
		t.Fatal(err)
	}
	close(release)
	time.Sleep(100 * time.Millisecond)
	// Now "a" is back: two jobs, limit one.

	if err = c.Add(ctx, "b", "+2s", b); err == nil {
		t.Skip("replace was accepted")
	}
	// The replace was refused, so the job we had should still be there.
	time.Sleep(3 * time.Second)
	if n := atomic.LoadInt64(&fired); n != 1 {
		t.Errorf("one-shot job fired %d times after a refused replace", n)
	}
}

// "Suspending or pausing only delays firing": commands are sent to the
// loop with the lock held, and the loop needs the lock when it comes back
// from a pause.  With the control channel (capacity 10) full, the eleventh
// command sent during a pause blocks with the lock, and the loop blocks on
// the lock: nothing ever fires again, and Add/Rem/PendingCount hang.
func TestUnchangedPauseDeadlock(t *testing.T) {
	ctx, c := unchangedCron2(t, "pausedeadlock", 500*time.Millisecond, 100)

	var fired int64
	if err := c.Add(ctx, "j", "+1s", func(time.Time) error {
		atomic.AddInt64(&fired, 1)
		return nil
	}); err != nil {
		t.Fatal(err)
	}

	done := make(chan bool)
	go func() {
		c.Pause(ctx)
		time.Sleep(50 * time.Millisecond) // The loop is sleeping now.
		for i := 0; i < 6; i++ {
			c.Suspend(ctx)
			c.Resume(ctx)
		}
		close(done)
	}()

	select {
	case <-done:
	case <-time.After(5 * time.Second):
		t.Errorf("commands still blocked long after the pause")
	}
	time.Sleep(1500 * time.Millisecond)
	if n := atomic.LoadInt64(&fired); n != 1 {
		t.Errorf("one-shot job fired %d times after pause, suspend, resume", n)
	}
}

// Shutdown and start: Kill ends the loop and clears the control channel,
// after which Start is accepted again and a new loop runs.  The new loop
// never arms the timer for what is pending (Kill stopped it; "resume"
// only arms it after a suspension), so a pending one-shot job does not
// fire, however late -- unless some later Add happens to arm the timer.
func TestUnchangedKillStart(t *testing.T) {
	ctx, c := unchangedCron2(t, "killstart", time.Second, 10)

	var fired int64
	if err := c.Add(ctx, "j", "+1s", func(time.Time) error {
		atomic.AddInt64(&fired, 1)
		return nil
	}); err != nil {
		t.Fatal(err)
	}
	if err := c.Kill(ctx); err != nil {
		t.Fatal(err)
	}
	time.Sleep(100 * time.Millisecond)
	c.Start(ctx)
	for i := 0; c.Resume(ctx) != nil; i++ {
		if 2000 < i {
			t.Fatal("cron did not start again")
		}
		time.Sleep(time.Millisecond)
	}
	defer c.Kill(ctx)
	time.Sleep(2500 * time.Millisecond)
	if n := atomic.LoadInt64(&fired); n != 1 {
		t.Errorf("one-shot job fired %d times (pending %d) after Kill and Start", n, c.PendingCount())
	}
}
