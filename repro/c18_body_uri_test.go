// Run-time confirmation for the C18 finding URI-PATH-WINS (test by the round-5 C18 sub-agent; copy into service/ of a
// scratch copy):
//
//   go test -mod=mod -vet=off -count=1 -run TestUnchangedBodyURIOverridesPath ./service/
//
// A `uri` in the body replaced the operation the request was sent to: a POST to /api/loc/admin/size with
// "uri":"/api/loc/admin/delete" deleted the location.
package service

import (
	"bytes"
	"io/ioutil"
	"net/http"
	"net/http/httptest"
	"net/url"
	"strings"
	"testing"

	"github.com/Comcast/rulio/core"
	"github.com/Comcast/rulio/sys"
)

func unchangedPost2(t *testing.T, base, path, body string) (int, string) {
	resp, err := http.Post(base+path, "text/plain", bytes.NewBufferString(body))
	if err != nil {
		t.Fatal(err)
	}
	defer resp.Body.Close()
	bs, err := ioutil.ReadAll(resp.Body)
	if err != nil {
		t.Fatal(err)
	}
	return resp.StatusCode, strings.TrimSpace(string(bs))
}

func unchangedServer2(t *testing.T) (*sys.System, *core.Context, *httptest.Server) {
	system, ctx := sys.ExampleSystem("unchanged")
	hs, err := NewHTTPService(ctx, &Service{System: system})
	if err != nil {
		t.Fatal(err)
	}
	return system, ctx, httptest.NewServer(hs)
}

func unchangedQuery2(kvs ...string) string {
	u := url.Values{}
	for i := 0; i+1 < len(kvs); i += 2 {
		u.Set(kvs[i], kvs[i+1])
	}
	return u.Encode()
}

// U7: a 'uri' in a JSON (or YAML, or form) body replaces the
// operation that the request's path names: a POST to .../admin/size
// deletes the location.
func TestUnchangedBodyURIOverridesPath(t *testing.T) {
	system, ctx, server := unchangedServer2(t)
	defer server.Close()
	defer system.Close(ctx)

	if _, err := system.AddFact(ctx, "here", "f", `{"a":1}`); err != nil {
		t.Fatal(err)
	}
	code, got := unchangedPost2(t, server.URL, "/api/loc/admin/size", `{"location":"here","uri":"/api/loc/admin/delete"}`)
	n, err := system.GetSize(ctx, "here")
	if err != nil {
		t.Fatal(err)
	}
	if n != 1 || got != `{"size":1}` {
		t.Errorf("POST /api/loc/admin/size: %d %q, and the location now has %d facts", code, got, n)
	}
}

