package core

// Run-time confirmation for the C20/C14 finding CTOR-PARAM (copy into core/ of a scratch copy of the repository):
//
//   go test -mod=mod -vet=off -count=1 -run TestVerifNewLocationControl ./core/
//
// NewLocation dropped its ctrl argument (the struct literal had nil in its place since a refactoring), so the
// control that sys.System computes per location (group controls: MaxFacts, script timeouts) was never in force.
// (Reported independently by four sub-agents asked to look for violations in the unchanged tree.)

import "testing"

func TestVerifNewLocationControl(t *testing.T) {
	ctx := NewContext("repro")
	ctl := DefaultControl()
	ctl.MaxFacts = 2
	loc, err := NewLocation(ctx, "small", nil, ctl)
	if err != nil {
		t.Fatal(err)
	}
	if loc.Control() != ctl {
		t.Errorf("the location does not use the control it was created with")
	}
	n := 0
	for i := 0; i < 5; i++ {
		if _, err := loc.AddFact(ctx, "", Map{"n": i}); err == nil {
			n++
		}
	}
	if n != 2 {
		t.Errorf("a location created with MaxFacts 2 accepted %d facts", n)
	}
}
