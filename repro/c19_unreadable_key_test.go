package core

// Repro for C19 GATE-FAILCLOSED (run by hand: copy into /repo/core and
// `go test -run TestVerifUnreadableKey`).  Before the fix CheckWrite and
// CheckRead dropped the error of GetPropString: a key whose stored value is
// not a string (or that could not be read at all) counted as "no key".

import "testing"

func TestVerifUnreadableKey(t *testing.T) {
	owner := NewContext("owner")
	loc, err := NewLocation(owner, "prot", nil, nil)
	if err != nil {
		t.Fatal(err)
	}
	if _, err := loc.AddFact(owner, "", Map{"!writeKey": 12345.0}); err != nil {
		t.Fatal(err)
	}
	if _, err := loc.AddFact(owner, "", Map{"!readKey": 12345.0}); err == nil {
		t.Fatal("a location with a write key accepted a write without any key")
	}
	stranger := NewContext("stranger")
	if _, err := loc.AddFact(stranger, "", Map{"likes": "chips"}); err == nil {
		t.Fatal("the location has a write key (12345), but a write without any key was accepted")
	}
}
