package core

// Run-time confirmation for the C01 finding LOST-RULE-SKIP (copy into core/ of a scratch copy; takes up to ~10 s):
//
//   go test -mod=mod -vet=off -count=1 -run TestVerifLostRule ./core/
//
// IndexedState.doFindRules collects the candidate ids first.  Finding candidate A expired removes, through deleteWith,
// candidate B; when the loop reaches B its fact is gone, and the function failed with "lost rule with id B": the whole
// event failed and the unrelated matching rule C was not evaluated.  Depends on the iteration order of a map, hence
// the retries.

import (
	"testing"
	"time"
)

func TestVerifLostRule(t *testing.T) {
	for i := 0; i < 8; i++ {
		ctx := NewContext("repro")
		store, _ := NewMemStorage(ctx)
		state, _ := NewIndexedState(ctx, "h", store)
		loc, err := NewLocation(ctx, "h", state, nil)
		if err != nil {
			t.Fatal(err)
		}
		when := map[string]interface{}{"pattern": map[string]interface{}{"a": 1.0}}
		act := map[string]interface{}{"code": "1"}
		if _, err := loc.AddRule(ctx, "A", Map{"when": when, "ttl": "1s", "action": act}); err != nil {
			t.Fatal(err)
		}
		if _, err := loc.AddRule(ctx, "B", Map{"when": when, "deleteWith": []interface{}{"A"}, "action": act}); err != nil {
			t.Fatal(err)
		}
		if _, err := loc.AddRule(ctx, "C", Map{"when": when, "action": act}); err != nil {
			t.Fatal(err)
		}
		time.Sleep(2100 * time.Millisecond)
		fr, cond := loc.ProcessEvent(ctx, Map{"a": 1.0})
		if cond != nil {
			t.Fatalf("try %d: the event failed: %s", i, cond.Msg)
		}
		found := false
		for _, c := range fr.Children {
			if c.Rule.Id == "C" {
				found = true
			}
		}
		if !found {
			t.Fatalf("try %d: rule C was not evaluated", i)
		}
	}
}
