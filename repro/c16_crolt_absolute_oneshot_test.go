package main

// Run-time confirmation for the C16 finding TIME-PARSE-ARGS (copy into crolt/ of a scratch copy as zz_test.go):
//
//   go test -mod=mod -vet=off -count=1 -run TestVerifAbsoluteOneShot ./crolt/
//
// Cron.set called time.Parse(j.Expression, time.RFC3339): an absolute time was never recognised as a one-shot
// schedule (it fell through to the cron-expression parser, which refused it).

import (
	"testing"
	"time"
)

func TestVerifAbsoluteOneShot(t *testing.T) {
	c := &Cron{}
	when := time.Now().Add(time.Hour).UTC().Truncate(time.Second)
	j := &Job{Account: "homer", Id: "1", Expression: when.Format(time.RFC3339)}
	if err := c.set(j); err != nil {
		t.Fatalf("an RFC3339 time is not accepted as a schedule: %v", err)
	}
	if !j.Once || !j.at.Equal(when) {
		t.Errorf("once=%v at=%v, wanted a one-shot job at %v", j.Once, j.at, when)
	}
}
