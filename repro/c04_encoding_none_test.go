package core

// Run-time confirmation for the C04 finding DECODE-DEP (copy to core/ of a scratch copy of the repository):
//
//   go test -mod=mod -vet=off -count=1 -run TestVerifEncodingNone ./core/
//
// DecodeString("none", code) and DecodeString("", code) returned the *encoding* instead of the code, so an action
// that spells out `"opts":{"encoding":"none"}` executed the script `none` (a ReferenceError) instead of its code.

import "testing"

func TestVerifEncodingNone(t *testing.T) {
	for _, enc := range []string{"none", ""} {
		got, err := DecodeString(enc, "1+2")
		if err != nil || got != "1+2" {
			t.Errorf("DecodeString(%q, \"1+2\") = %q, %v; wanted the code", enc, got, err)
		}
	}
	a := Action{Code: "1+2", Endpoint: "javascript", Opts: map[string]interface{}{"encoding": "none"}}
	code, err := a.GetStringCode()
	if err != nil || code != "1+2" {
		t.Errorf("GetStringCode with encoding none = %q, %v", code, err)
	}
}
