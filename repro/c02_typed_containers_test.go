package core

// Repro for C02 (copy into /repo/core; go test -run TestVerifTypedContainers).
// Before the fix: the matcher converts nested core.Map values and typed slices (cast), but the term extractor
// of the indexed state skipped them, so a matching fact added through the Go API was never a candidate:
// linear state found it, indexed state did not.

import "testing"

func TestVerifTypedContainers(t *testing.T) {
	ctx := NewContext("repro")
	for _, linear := range []bool{true, false} {
		store, _ := NewMemStorage(ctx)
		var st State
		if linear {
			st, _ = NewLinearState(ctx, "tc", store)
		} else {
			st, _ = NewIndexedState(ctx, "tc", store)
		}
		loc, _ := NewLocation(ctx, "tc", st, nil)
		if _, err := loc.AddFact(ctx, "nested", Map{"a": Map{"b": "c"}}); err != nil {
			t.Fatal(err)
		}
		if _, err := loc.AddFact(ctx, "ints", Map{"tags": []interface{}{"x", "y"}, "more": []string{"p", "q"}}); err != nil {
			t.Fatal(err)
		}
		sr, err := loc.SearchFacts(ctx, Map{"a": map[string]interface{}{"b": "c"}}, false)
		if err != nil {
			t.Fatal(err)
		}
		if len(sr.Found) != 1 {
			t.Errorf("linear=%v: nested core.Map fact found %d times", linear, len(sr.Found))
		}
	}
}
