package service

// Repro for C18 (copy into /repo/service; go test -run TestVerifServiceErrors).
// Before the fix several /api/loc/* cases computed an error and then overwrote or ignored it, so a request
// with a missing / ill-typed parameter or a failing sub-operation was answered as a success.

import (
	"bytes"
	"testing"

	"github.com/Comcast/rulio/core"
	"github.com/Comcast/rulio/sys"
)

func TestVerifServiceErrors(t *testing.T) {
	ctx := core.NewContext("repro")
	s := &Service{System: sys.SimpleSystem(ctx)}
	call := func(m map[string]interface{}) error {
		var out bytes.Buffer
		_, err := s.ProcessRequest(ctx, m, &out)
		return err
	}
	if err := call(map[string]interface{}{"uri": "/api/loc/admin/create", "location": "here"}); err != nil {
		// creation is optional in this configuration
		t.Log(err)
	}
	cases := []struct {
		what string
		m    map[string]interface{}
	}{
		{"util/js without the required code", map[string]interface{}{"uri": "/api/loc/util/js", "location": "here"}},
		{"facts/add with an ill-typed id", map[string]interface{}{"uri": "/api/loc/facts/add", "location": "here", "fact": map[string]interface{}{"a": "b"}, "id": 5.0}},
		{"rules/add with an ill-typed id", map[string]interface{}{"uri": "/api/loc/rules/add", "location": "here", "rule": map[string]interface{}{"when": map[string]interface{}{"pattern": map[string]interface{}{"a": "?x"}}, "action": map[string]interface{}{"code": "1"}}, "id": 5.0}},
		{"parents with an ill-typed set", map[string]interface{}{"uri": "/api/loc/parents", "location": "here", "set": 5.0}},
		{"facts/take without a pattern", map[string]interface{}{"uri": "/api/loc/facts/take", "location": "here"}},
		{"facts/replace without a pattern", map[string]interface{}{"uri": "/api/loc/facts/replace", "location": "here", "fact": map[string]interface{}{"a": "b"}}},
	}
	for _, c := range cases {
		if err := call(c.m); err == nil {
			t.Errorf("%s: answered as a success", c.what)
		}
	}
}
