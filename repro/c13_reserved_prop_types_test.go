package core

// Run-time confirmation for the C13/C19 finding PROP-TYPED (from the round-5 C13 and C19 sub-agents' reports; copy into
// core/ of a scratch copy):
//
//   go test -mod=mod -vet=off -count=1 -run TestVerifReservedPropTypes ./core/
//
// A location-level property that the engine itself reads was stored whatever its type.  {"!writeKey":5} then blocked
// every write for good (since repair 90b4643 the gate fails closed on a key it cannot read — including for the write
// that would repair the key), {"!parents":7} made every event and inherited search fail, {"!enabled":false} did not
// disable.  Such a value is now refused when it is written.

import "testing"

func TestVerifReservedPropTypes(t *testing.T) {
	ctx := NewContext("repro")
	loc, err := NewLocation(ctx, "h", nil, nil)
	if err != nil {
		t.Fatal(err)
	}
	for _, bad := range []Map{
		{"!writeKey": 5.0},
		{"!readKey": []interface{}{}},
		{"!parents": 7.0},
		{"!enabled": false},
		{"!createdAt": 5.0},
		{"!cacheTTL": "30s"},
	} {
		if _, err := loc.AddFact(ctx, "", bad); err == nil {
			t.Errorf("%v was accepted", bad)
		}
	}
	if _, err := loc.AddFact(ctx, "f", Map{"likes": "tacos"}); err != nil {
		t.Errorf("an ordinary write afterwards: %v", err)
	}
	if _, cond := loc.ProcessEvent(ctx, Map{"a": 1.0}); cond != nil {
		t.Errorf("an event afterwards: %v", cond.Msg)
	}
	for _, good := range []Map{{"!writeKey": "k"}, {"!parents": []interface{}{"p"}}, {"!cacheTTL": 500.0}} {
		c := NewContext("owner")
		c.WriteKey = "k"
		if _, err := loc.AddFact(c, "", good); err != nil {
			t.Errorf("%v was refused: %v", good, err)
		}
	}
}
