package core

// Repro for C06/C13 (copy into /repo/core; go test -run TestVerifListRulesError).
// Before the fix: Location.ListRules dereferenced the nil search result when the underlying search
// failed (panic), and otherwise returned a nil error whatever happened.

import "testing"

func TestVerifListRulesError(t *testing.T) {
	ctx := NewContext("repro")
	loc, err := NewLocation(ctx, "lr", nil, nil)
	if err != nil {
		t.Fatal(err)
	}
	// a parent without a LocationProvider makes the inherited search fail
	if _, err := loc.SetParents(ctx, []string{"nowhere"}); err != nil {
		t.Fatal(err)
	}
	defer func() {
		if x := recover(); x != nil {
			t.Fatalf("ListRules panicked: %v", x)
		}
	}()
	if _, err := loc.ListRules(ctx, true); err == nil {
		t.Fatal("ListRules reported success although the search failed")
	}
}
