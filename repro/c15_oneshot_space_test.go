package cron

// Run-time confirmation for the C15 finding ONESHOT-AGREE (copy into cron/ of a scratch copy):
//
//   go test -mod=mod -vet=off -count=1 -run TestVerifOneShotSpace ./cron/
//
// The crons classify the schedule ParseSchedule returns (trimmed); RuleDone.Do classifies rule.Schedule as stored.
// Before the fix " +1s" was one-shot for the cron (fires once) and recurring for the engine (rule never deleted).

import (
	"testing"

	"github.com/Comcast/rulio/core"
)

func TestVerifOneShotSpace(t *testing.T) {
	for _, s := range []string{" +1s", "\t!2030-01-01T00:00:00Z", "+1s ", " * * * * *"} {
		sched, _, err := ParseSchedule(s)
		if err != nil {
			t.Fatal(err)
		}
		if cronSays, engineSays := core.OneShotSchedule(sched), core.OneShotSchedule(s); cronSays != engineSays {
			t.Errorf("schedule %q: one-shot for the cron = %v, for RuleDone.Do = %v", s, cronSays, engineSays)
		}
	}
}
