// Run-time confirmation for the C09/C15/C16 finding CROLT-URL (escaping clause) (test by the round-5 C09 sub-agent; copy
// into cron/ of a scratch copy):
//
//   go test -mod=mod -vet=off -count=1 -run TestC09U3CroltRemOtherAccount ./cron/
//
// CroltSimple.Rem built "?account=" + location + "&id=" + id without escaping: removing any scheduled rule from the
// location named "B&id=r" asked the persistent cron to delete job "r" of location "B"; ids with "+", "&" or "#" were not
// removed at all (and Rem reported success).
package cron

import (
	"net/http"
	"net/http/httptest"
	"sync"
	"testing"

	"github.com/Comcast/rulio/core"
)

// U3.  CroltSimple.Rem (the persistent, external cron) builds its
// request as "?account=" + location + "&id=" + id without escaping
// anything.  crolt reads the first 'account' and the first 'id'
// (r.FormValue, see crolt/handlers.go DeleteHandler), so removing ANY
// scheduled rule from the location named "B&id=r" removes the job "r"
// of location "B".
func TestC09U3CroltRemOtherAccount(t *testing.T) {
	var mu sync.Mutex
	var account, id string
	ts := httptest.NewServer(http.HandlerFunc(func(w http.ResponseWriter, r *http.Request) {
		// As crolt's DeleteHandler does.
		mu.Lock()
		account = r.FormValue("account")
		id = r.FormValue("id")
		mu.Unlock()
		w.Write([]byte(`{"status":"ok"}`))
	}))
	defer ts.Close()

	ctx := core.NewContext("c09u3")
	name := "B&id=r"
	if _, err := core.NewLocation(ctx, name, nil, nil); err != nil { // Sets ctx's location.
		t.Fatal(err)
	}

	c := &CroltSimple{CroltURL: ts.URL}
	if _, err := c.Rem(ctx, "x"); err != nil {
		t.Fatal(err)
	}
	mu.Lock()
	defer mu.Unlock()
	if account != name || id != "x" {
		t.Errorf("removing rule \"x\" of location %q asked crolt to delete job %q of account %q", name, id, account)
	}
}
