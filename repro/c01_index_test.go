package core

// Repros for C01 (copy into /repo/core; go test -run TestVerifIndex).

import (
	"encoding/json"
	"testing"
)

func verifIdxLoc(t *testing.T) (*Context, *Location) {
	ctx := NewContext("repro")
	store, _ := NewMemStorage(ctx)
	state, err := NewIndexedState(ctx, "idx", store)
	if err != nil {
		t.Fatal(err)
	}
	loc, err := NewLocation(ctx, "idx", state, nil)
	if err != nil {
		t.Fatal(err)
	}
	return ctx, loc
}

func verifMap(t *testing.T, js string) Map {
	var m map[string]interface{}
	if err := json.Unmarshal([]byte(js), &m); err != nil {
		t.Fatal(err)
	}
	return Map(m)
}

func verifFound(t *testing.T, ctx *Context, loc *Location, event string) map[string]*Rule {
	rs, err := loc.SearchRules(ctx, verifMap(t, event), false)
	if err != nil {
		t.Fatalf("SearchRules(%s): %v", event, err)
	}
	return rs
}

// Before the fix: a rule whose `when` is {} (root node) or contains an empty map ({"k":{}}, Map node)
// is indexed on a node whose Ids the search never collects, so it never fires under IndexedState
// although its pattern matches (LinearState fires it).
func TestVerifIndexEmptyPatterns(t *testing.T) {
	ctx, loc := verifIdxLoc(t)
	for id, when := range map[string]string{"all": `{}`, "kmap": `{"k":{}}`} {
		rule := verifMap(t, `{"when":{"pattern":`+when+`},"action":{"code":"1"}}`)
		if _, err := loc.AddRule(ctx, id, rule); err != nil {
			t.Fatal(err)
		}
	}
	rs := verifFound(t, ctx, loc, `{"k":{"x":"y"},"z":"w"}`)
	if _, ok := rs["all"]; !ok {
		t.Errorf("rule with when {} not found by the index")
	}
	if _, ok := rs["kmap"]; !ok {
		t.Errorf("rule with when {\"k\":{}} not found by the index")
	}
}

// Before the fix: replacing a rule's `when` un-indexed the *new* pattern, leaving the old one in the
// index; after removing the rule every event matching the former pattern failed with "lost rule".
func TestVerifIndexReplaceWhenThenRemove(t *testing.T) {
	ctx, loc := verifIdxLoc(t)
	if _, err := loc.AddRule(ctx, "r", verifMap(t, `{"when":{"pattern":{"a":"1"}},"action":{"code":"1"}}`)); err != nil {
		t.Fatal(err)
	}
	if _, err := loc.AddRule(ctx, "r", verifMap(t, `{"when":{"pattern":{"b":"2"}},"action":{"code":"1"}}`)); err != nil {
		t.Fatal(err)
	}
	if _, err := loc.RemRule(ctx, "r"); err != nil {
		t.Fatal(err)
	}
	if rs := verifFound(t, ctx, loc, `{"a":"1"}`); len(rs) != 0 {
		t.Errorf("removed rule still found: %v", rs)
	}
}

// Before the fix: overwriting a rule id with a plain fact left the rule's pattern in the index, and
// every later event matching it failed with "Rule body missing".
func TestVerifIndexOverwriteRuleWithFact(t *testing.T) {
	ctx, loc := verifIdxLoc(t)
	if _, err := loc.AddRule(ctx, "x", verifMap(t, `{"when":{"pattern":{"a":"1"}},"action":{"code":"1"}}`)); err != nil {
		t.Fatal(err)
	}
	if _, err := loc.AddFact(ctx, "x", verifMap(t, `{"just":"a fact"}`)); err != nil {
		t.Fatal(err)
	}
	if rs := verifFound(t, ctx, loc, `{"a":"1"}`); len(rs) != 0 {
		t.Errorf("overwritten rule still found: %v", rs)
	}
}
