package core

// Run-time confirmation for the C01/C04 finding WHEN-AGREE (from the round-4 C01 and round-5 C01/C04 sub-agents' reports;
// copy into core/ of a scratch copy):
//
//   go test -mod=mod -vet=off -count=1 -run TestVerifImplicitWhen ./core/
//
// A rule whose `when` is the pattern itself (no "pattern" property) is indexed (GetRulePatterns) and scanned
// (LinearState.doFindRules) under that pattern, but Rule.When unmarshalled to a PatternQuery with a nil Pattern, and
// FindRules.Do matched *that*: the rule ran with no bindings (?x unbound), and in an IndexedState also for events that
// its `when` does not match (the index returns a superset).

import (
	"encoding/json"
	"testing"
)

func TestVerifImplicitWhen(t *testing.T) {
	for _, linear := range []bool{true, false} {
		ctx := NewContext("repro")
		store, _ := NewMemStorage(ctx)
		var state State
		if linear {
			state, _ = NewLinearState(ctx, "h", store)
		} else {
			state, _ = NewIndexedState(ctx, "h", store)
		}
		loc, err := NewLocation(ctx, "h", state, nil)
		if err != nil {
			t.Fatal(err)
		}
		var rule Map
		json.Unmarshal([]byte(`{"when":{"wants":"?x"},"action":{"code":"x"}}`), &rule)
		if _, err := loc.AddRule(ctx, "r", rule); err != nil {
			t.Fatal(err)
		}
		fr, cond := loc.ProcessEvent(ctx, Map{"wants": "beer"})
		if cond != nil {
			t.Errorf("linear=%v: %s", linear, cond.Msg)
			continue
		}
		js, _ := json.Marshal(fr.Values)
		if string(js) != `["beer"]` {
			t.Errorf("linear=%v: values %s, wanted [\"beer\"]", linear, js)
		}
	}
}
