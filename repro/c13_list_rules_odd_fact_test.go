package core

// Run-time confirmation for LIST-TOLERANT (C13; history by the round-7 C13 sub-agent): AddFact stores {"rule":5} (a
// location without the cron hooks; both states), and from then on ListRules failed for the whole location: "Wanted a
// string but got 5 (float64)".  One stored fact poisoned the listing of every rule.

import "testing"

func TestVerifListRulesAfterOddFact(t *testing.T) {
	for _, indexed := range []bool{false, true} {
		ctx := NewContext("verif")
		ctx.Verbosity = NOTHING
		store, _ := NewMemStorage(ctx)
		var state State
		var err error
		if indexed {
			state, err = NewIndexedState(ctx, "odd", store)
		} else {
			state, err = NewLinearState(ctx, "odd", store)
		}
		if err != nil {
			t.Fatal(err)
		}
		loc, err := NewLocation(ctx, "odd", state, nil)
		if err != nil {
			t.Fatal(err)
		}
		if _, err = loc.AddRule(ctx, "r1", Map{"when": map[string]interface{}{"pattern": map[string]interface{}{"a": "?x"}},
			"action": map[string]interface{}{"code": "1"}}); err != nil {
			t.Fatal(err)
		}
		if _, err = loc.AddFact(ctx, "odd", Map{"rule": 5.0}); err != nil {
			continue // a refusal would do, too
		}
		ids, err := loc.ListRules(ctx, false)
		if err != nil {
			t.Errorf("indexed=%v: one odd fact and the rules cannot be listed: %v", indexed, err)
			continue
		}
		found := false
		for _, id := range ids {
			if id == "r1" {
				found = true
			}
		}
		if !found {
			t.Errorf("indexed=%v: r1 is not listed: %v", indexed, ids)
		}
	}
}
