// Run-time confirmation for CTX-PER-GOROUTINE (C09, C04; the test body is the round-6 C09 sub-agent's; copy into core/ of
// a scratch copy):
//
//   go test -mod=mod -vet=off -count=1 -run TestVerifConcurrentActionsWriteToParent ./core/
//
// The concurrently run actions of a rule shared the event's Context.  One action's inherited search points that Context
// at the parent for the parent's part of the search; a sibling that starts in that window builds its environment
// (Env.AddFact, ...) for "the context's location", which is the parent: an event in the child wrote facts into the
// parent.  (316109e pointed the context at the running location once, before the script; that covers the sequential case
// only.)
package core

import (
	"fmt"
	"sort"
	"strings"
	"testing"
)

func c09Loc(t *testing.T, name string, linear bool) (*Context, *Location) {
	ctx := BenchContext(name)
	store, _ := NewMemStorage(ctx)
	var state State
	var err error
	if linear {
		state, err = NewLinearState(ctx, name, store)
	} else {
		state, err = NewIndexedState(ctx, name, store)
	}
	if err != nil {
		t.Fatal(err)
	}
	loc, err := NewLocation(ctx, name, state, nil)
	if err != nil {
		t.Fatal(err)
	}
	loc.SetControl(&Control{MaxFacts: 100000, Verbosity: NOTHING})
	return ctx, loc
}

func c09Ids(t *testing.T, ctx *Context, loc *Location, pattern string, inherited bool) string {
	srs, err := loc.SearchFacts(ctx, mapJS(pattern), inherited)
	if err != nil {
		t.Fatalf("search %s in %s: %v", pattern, loc.Name, err)
	}
	acc := make([]string, 0, len(srs.Found))
	for _, sr := range srs.Found {
		acc = append(acc, sr.Id)
	}
	sort.Strings(acc)
	return strings.Join(acc, ",")
}

// TestC09ConcurrentActionsWriteToParent: the actions of a rule run
// concurrently and share the event's Context.  An action that does an
// inherited search (Env.Search) points that Context at the parent for
// the time of the parent's part of the search; an action that starts in
// that window builds its environment (Env.AddFact, ...) for "the
// context's location", which is the parent.  Its writes go to the
// parent: an event in the child changes what the parent returns.
func TestVerifConcurrentActionsWriteToParent(t *testing.T) {
	ctx, parent := c09Loc(t, "parent", true)
	_, child := c09Loc(t, "child", true)
	child.Provider = NewSimpleLocationProvider(map[string]*Location{"parent": parent})

	// Something for the parent's part of the search to chew on.
	for i := 0; i < 3000; i++ {
		if _, err := parent.AddFact(ctx, fmt.Sprintf("p%d", i), mapJS(fmt.Sprintf(`{"n":"%d"}`, i))); err != nil {
			t.Fatal(err)
		}
	}
	if _, err := child.SetParents(ctx, []string{"parent"}); err != nil {
		t.Fatal(err)
	}

	// The first action searches (inherited) for a while.  The
	// others have a lot of code to compile first, so they start
	// their scripts while the first one is searching, and then
	// just write a fact.
	padding := ""
	for i := 0; i < 400; i++ {
		padding += fmt.Sprintf("var pad%d = %d;\n", i, i)
	}
	actions := `{"code":"for (var i = 0; i < 40; i++) { Env.Search({\"nope\":\"?x\"}); }; 'searched';"}`
	n := 12
	for i := 0; i < n; i++ {
		code := fmt.Sprintf("%sEnv.AddFact('written%d', {'written':'by the child'});", strings.Replace(padding, "pad", fmt.Sprintf("pad%d_", i), -1), i)
		actions += fmt.Sprintf(`,{"code":%q}`, code)
	}
	rule := fmt.Sprintf(`{"when":{"pattern":{"go":"?x"}},"actions":[%s]}`, actions)
	if _, err := child.AddRule(ctx, "r", mapJS(rule)); err != nil {
		t.Fatal(err)
	}

	for round := 0; round < 5; round++ {
		_, cond := child.ProcessEvent(ctx, mapJS(`{"go":"now"}`))
		if cond != nil {
			t.Fatalf("event: %v", cond)
		}
		if got := c09Ids(t, ctx, parent, `{"written":"?who"}`, false); got != "" {
			t.Fatalf("round %d: an event in the child wrote %s into the PARENT; the child has %s",
				round, got, c09Ids(t, ctx, child, `{"written":"?who"}`, false))
		}
	}
}

