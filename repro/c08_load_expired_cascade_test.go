package core

// Run-time confirmation for the C08 finding CASC-LOAD (test by the round-4 C06 sub-agent; copy into core/ of a scratch
// copy; sleeps 2 s):
//
//   go test -mod=mod -vet=off -count=1 -run TestVerifLoadExpiredCascade ./core/
//
// IndexedState.Load removed a fact it found expired with a bare Store.Remove: the facts that name it in deleteWith
// stayed (for ever: their target is gone, nothing will cascade to them), whereas expiry in a loaded location goes
// through rem -> deleteDependencies.

import (
	"testing"
	"time"
)

func TestVerifLoadExpiredCascade(t *testing.T) {
	ctx := NewContext("repro")
	store, _ := NewMemStorage(ctx)
	open := func() *Location {
		c := NewContext("repro")
		s, err := NewIndexedState(c, "loc", store)
		if err != nil {
			t.Fatal(err)
		}
		loc, err := NewLocation(c, "loc", s, nil)
		if err != nil {
			t.Fatal(err)
		}
		return loc
	}
	live := open()
	if _, err := live.AddFact(ctx, "f", Map{"likes": "tacos", "ttl": "1s"}); err != nil {
		t.Fatal(err)
	}
	if _, err := live.AddFact(ctx, "d", Map{"note": "about f", "deleteWith": []interface{}{"f"}}); err != nil {
		t.Fatal(err)
	}
	time.Sleep(2100 * time.Millisecond)
	observe := func(ctx *Context, loc *Location) [2]int {
		var acc [2]int
		for i, pattern := range []Map{{"likes": "?x"}, {"note": "?n"}} {
			srs, err := loc.SearchFacts(ctx, pattern, false)
			if err != nil {
				t.Fatal(err)
			}
			acc[i] = len(srs.Found)
		}
		return acc
	}
	// The reloaded location goes first: the live location's queries remove "d" from the shared storage.
	got := observe(NewContext("repro"), open())
	want := observe(ctx, live)
	if want != got {
		t.Fatalf("same queries: live location finds %v, reloaded location finds %v", want, got)
	}
}
