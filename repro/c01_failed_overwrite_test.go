package core

// Run-time confirmation for the C01/C06/C10 finding IDX-ROLLBACK (copy into core/ of a scratch copy of the repository):
//
//   go test -mod=mod -vet=off -count=1 -run TestVerifFailedOverwrite ./core/
//
// IndexedState.add took the stored rule out of the rule index before it knew whether the incoming fact could be
// indexed; when the replacement was refused ("No 'when' in rule."), the old rule stayed stored but was never
// dispatched again.  (First observed by sub-agents asked to look for violations in the unchanged tree.)

import "testing"

func TestVerifFailedOverwrite(t *testing.T) {
	ctx := NewContext("repro")
	store, _ := NewMemStorage(ctx)
	state, _ := NewIndexedState(ctx, "o", store)
	loc, err := NewLocation(ctx, "o", state, nil)
	if err != nil {
		t.Fatal(err)
	}
	if _, err := loc.AddRule(ctx, "r1", MustMap(`{"when":{"pattern":{"arrived":"?who"}},"action":{"code":"'v1 ' + who"}}`)); err != nil {
		t.Fatal(err)
	}
	// a replacement that cannot be indexed
	if _, err := loc.AddFact(ctx, "r1", MustMap(`{"rule":{"action":{"code":"1"}}}`)); err == nil {
		t.Fatal("set-up: the replacement should have been refused")
	}
	fr, cond := loc.ProcessEvent(ctx, MustMap(`{"arrived":"homer"}`))
	if cond != nil || len(fr.Values) != 1 {
		t.Errorf("after a refused replacement the stored rule r1 no longer fires: values=%v cond=%v", fr.Values, cond)
	}
}
