package cron

// Run-time confirmation for the findings CROLT-STATUS (C15/C16) (from the round-5 C16 and C15 sub-agents' reports; copy
// into cron/ of a scratch copy):
//
//   go test -mod=mod -vet=off -count=1 -run TestVerifCroltRefusalIsAnError ./cron/
//
// core.HTTPRequest.Do returns an error only when the exchange failed.  crolt answers 400 to a schedule it does not
// understand and to a job that exists; CroltSimple.Schedule never looked at the status: ScheduleEvent (and AddRule)
// reported success for a rule that was not scheduled.
// (JITTER-NONNEG and BRK-INTERVAL, repaired in the same batch, are value-level at run time: a negative jitter and
// NewOutboundBreaker(1, 10) followed by Zap(), which panicked with an integer divide by zero.)

import (
	"net/http"
	"net/http/httptest"
	"testing"

	"github.com/Comcast/rulio/core"
)

func TestVerifCroltRefusalIsAnError(t *testing.T) {
	ts := httptest.NewServer(http.HandlerFunc(func(w http.ResponseWriter, r *http.Request) {
		w.WriteHeader(http.StatusBadRequest) // as crolt's protest() does
		w.Write([]byte("error creating job: job exists\n"))
	}))
	defer ts.Close()
	ctx := core.NewContext("repro")
	if _, err := core.NewLocation(ctx, "h", nil, nil); err != nil {
		t.Fatal(err)
	}
	c := &CroltSimple{CroltURL: ts.URL, RulesURL: "http://localhost:1/"}
	err := c.ScheduleEvent(ctx, &ScheduledEvent{Id: "r", Event: `{"trigger!":"r"}`, Schedule: "* * * * *"})
	if err == nil {
		t.Errorf("the cron service answered 400, ScheduleEvent reported success")
	}
}
