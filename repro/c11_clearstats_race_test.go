package sys

// Repro for C11 (copy into /repo/sys; go test -race -run TestVerifClearStatsRace).
// Before the fix: System.ClearStats overwrote the statistics struct with a plain store while every request
// (to any location) updates its fields with sync/atomic: a data race between unrelated requests.

import (
	"sync"
	"testing"

	. "github.com/Comcast/rulio/core"
)

func TestVerifClearStatsRace(t *testing.T) {
	s := SimpleSystem(NewContext("repro"))
	var wg sync.WaitGroup
	wg.Add(2)
	go func() {
		defer wg.Done()
		for i := 0; i < 200; i++ {
			s.AddFact(NewContext("a"), "locA", "", `{"n":"1"}`)
		}
	}()
	go func() {
		defer wg.Done()
		for i := 0; i < 200; i++ {
			s.ClearStats(NewContext("b"))
		}
	}()
	wg.Wait()
}
