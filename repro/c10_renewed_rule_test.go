// Run-time confirmation for the C10 finding ADD-EXPIRES-STALE (test by the round-5 C10 sub-agent; copy into sys/ of a
// scratch copy; sleeps 2 s per state):
//
//   go test -mod=mod -vet=off -count=1 -run TestUnchangedRenewedRuleNeverFires ./sys/
//
// A rule with a ttl expires and is added again under the same id with the same `when`.  IndexedState.add indexed the
// new rule and then ran the cron add hook, whose state.Get(id) (added by repair d44ec79) found the old fact expired and
// removed it — un-indexing the identical pattern that had just been indexed for the new rule: AddRule succeeded, the
// rule was listed and enabled, and never fired until the next reload.  A regression of my own repair, found by a
// part-B report.
package sys

import (
	"fmt"
	"sort"
	"testing"
	"time"

	. "github.com/Comcast/rulio/core"
	"github.com/Comcast/rulio/cron"
)

func usSystem(t *testing.T, name string, linear bool) (*System, *Context) {
	ctx := NewContext(name)
	ctx.Verbosity = NOTHING
	conf := ExampleConfig()
	conf.UnindexedState = linear
	cont := ExampleSystemControl()
	cont.LocationTTL = Forever
	cr, _ := cron.NewCron(nil, time.Second, "intcron", 1000000)
	go cr.Start(ctx)
	cont.DefaultLocControl = &Control{MaxFacts: 1000, Verbosity: NOTHING}
	sys, err := NewSystem(ctx, *conf, *cont, &cron.InternalCron{Cron: cr})
	if err != nil {
		t.Fatal(err)
	}
	return sys, ctx
}

func usFired(sys *System, ctx *Context, location, event string) ([]string, error) {
	fr, err := sys.ProcessEvent(ctx, location, event)
	acc := []string{}
	if fr != nil {
		for _, v := range fr.Values {
			acc = append(acc, fmt.Sprintf("%v", v))
		}
	}
	sort.Strings(acc)
	return acc, err
}

// US1.  A rule with a ttl expires and is added again under the same id
// with the same 'when' (a renewal) before anything else touched it.
// IndexedState.add un-indexes the old rule, indexes the new one, and then
// runs the add hook; the cron hook calls state.Get(id) to see what is
// being replaced; Get finds the old fact expired and removes it - which
// un-indexes the (identical) pattern that was just indexed for the new
// rule.  AddRule succeeds, the rule is stored, listed, enabled - and never
// fires until the location is loaded again.
func TestUnchangedRenewedRuleNeverFires(t *testing.T) {
	for _, linear := range []bool{false, true} {
		sys, ctx := usSystem(t, "us1", linear)
		loc := fmt.Sprintf("us1-%v", linear)
		if _, err := sys.AddRule(ctx, loc, "r1", `{"when":{"pattern":{"x":1}},"action":{"code":"'A'"},"ttl":"1s"}`); err != nil {
			t.Fatal(err)
		}
		time.Sleep(2100 * time.Millisecond)
		if _, err := sys.AddRule(ctx, loc, "r1", `{"when":{"pattern":{"x":1}},"action":{"code":"'B'"}}`); err != nil {
			t.Fatal(err)
		}
		ids, _ := sys.ListRules(ctx, loc, false)
		enabled, _ := sys.RuleEnabled(ctx, loc, "r1")
		got, err := usFired(sys, ctx, loc, `{"x":1}`)
		if err != nil || fmt.Sprint(got) != "[B]" {
			t.Errorf("linear=%v: renewed rule (listed: %v, enabled: %v) fired %v (err %v), wanted [B]", linear, ids, enabled, got, err)
		}
		sys.Close(ctx)
	}
}

