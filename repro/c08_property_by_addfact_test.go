package core

// Run-time confirmation for the C08/C10 finding PROP-DW-ANY (from the round-5 C08 sub-agent's report; copy into core/
// of a scratch copy):
//
//   go test -mod=mod -vet=off -count=1 -run TestVerifPropertyByAddFact ./core/
//
// A property written through the plain fact API ({"id":"r1","!disabled":true}) is stored under the canonical property
// id and read as a property of r1, but only SetProp added the deleteWith that makes it go with r1: such a property
// (e.g. a disabled flag) survived its target, and a rule added later under that id was born disabled.

import "testing"

func TestVerifPropertyByAddFact(t *testing.T) {
	for _, linear := range []bool{true, false} {
		ctx := NewContext("repro")
		store, _ := NewMemStorage(ctx)
		var state State
		if linear {
			state, _ = NewLinearState(ctx, "h", store)
		} else {
			state, _ = NewIndexedState(ctx, "h", store)
		}
		if err := state.Load(ctx); err != nil {
			t.Fatal(err)
		}
		if _, err := state.Add(ctx, "r1", Map{"likes": "tacos"}); err != nil {
			t.Fatal(err)
		}
		pid, err := state.Add(ctx, "", Map{"id": "r1", "!disabled": true})
		if err != nil || pid != "!r1.disabled" {
			t.Fatalf("property id %q, %v", pid, err)
		}
		if _, err := state.Rem(ctx, "r1"); err != nil {
			t.Fatal(err)
		}
		if _, found, _ := GetProp(ctx, state, "r1", "disabled", nil); found {
			t.Errorf("linear=%v: the property `disabled` of r1 survived r1", linear)
		}
	}
}
