package core

// Run-time confirmation for the findings SHARED-TO-JS (C11) and COPY-DEEP (C04) (from the round-5 C11, C04 and C14
// sub-agents' reports; copy into core/ of a scratch copy):
//
//   go test -mod=mod -vet=off -count=1 -run TestVerifCodePropsAndCopy ./core/
//
// (a) Control.CodeProps reached the Javascript runtime by reference: `Env.limits.max = 42` in one location's script
//     changed what the scripts of every location that shares the control read.
// (b) core.Copy did not descend into arrays: the per-action copies of the event shared everything below an array, with
//     each other and with the caller's event.

import "testing"

func TestVerifCodePropsAndCopy(t *testing.T) {
	ctx := NewContext("repro")
	props := map[string]interface{}{"limits": map[string]interface{}{"max": 1.0}}
	if _, err := RunJavascript(ctx, nil, props, "Env.limits.max = 42; true"); err != nil {
		t.Fatal(err)
	}
	x, err := RunJavascript(ctx, nil, props, "Env.limits.max")
	if err != nil {
		t.Fatal(err)
	}
	if f, ok := x.(float64); !ok || f != 1 {
		t.Errorf("another script reads Env.limits.max = %v after the first one wrote it, wanted 1", x)
	}

	event := map[string]interface{}{"items": []interface{}{map[string]interface{}{"n": 1.0}}}
	c := Copy(event).(map[string]interface{})
	c["items"].([]interface{})[0].(map[string]interface{})["n"] = 2.0
	if n := event["items"].([]interface{})[0].(map[string]interface{})["n"]; n != 1.0 {
		t.Errorf("a write to the copy's items[0].n changed the original to %v", n)
	}
}
