package cron

// Run-time confirmation for the C15/C16 finding CROLT-URL (copy into cron/ of a scratch copy as zz_test.go):
//
//   go test -mod=mod -vet=off -count=1 -run TestVerifCroltRemURL ./cron/
//
// CroltSimple.Rem built its URL with strings.Trim(CroltURL, "/rem") — a cut set, not a suffix — and never appended
// "/rem": the removal request went to the service's root, was answered, and the job kept firing.

import (
	"net/http"
	"net/http/httptest"
	"testing"

	"github.com/Comcast/rulio/core"
)

func TestVerifCroltRemURL(t *testing.T) {
	var paths []string
	srv := httptest.NewServer(http.HandlerFunc(func(w http.ResponseWriter, r *http.Request) {
		paths = append(paths, r.URL.Path)
		w.Write([]byte("{}"))
	}))
	defer srv.Close()
	ctx := core.NewContext("repro")
	loc, err := core.NewLocation(ctx, "home", nil, nil)
	if err != nil {
		t.Fatal(err)
	}
	ctx.SetLoc(loc)
	c := &CroltSimple{CroltURL: srv.URL + "/", RulesURL: "http://localhost:9001/"}
	if _, err := c.Rem(ctx, "job1"); err != nil {
		t.Fatal(err)
	}
	if len(paths) != 1 || paths[0] != "/rem" {
		t.Errorf("the removal request went to %v, wanted [/rem]", paths)
	}
}
