package sys

// Run-time confirmation for the C17 finding CACHE-PENDING-SHARED (premise clause) (from the round-5 C17 sub-agent's
// report, TestC17CachePendingOff; copy into sys/ of a scratch copy):
//
//   go test -mod=mod -vet=off -count=1 -run TestVerifSetControlForcesCachePending ./sys/
//
// NewSystem forces SystemControl.CachePending on (with LocationTTL `never` an entry that is not published is not shared:
// concurrent first requests each load the location).  System.SetControl — /api/sys/control — installed whatever it was
// given.

import "testing"

func TestVerifSetControlForcesCachePending(t *testing.T) {
	s, _ := ExampleSystem("repro")
	ctl := *s.Control()
	ctl.CachePending = false
	s.SetControl(ctl)
	if !s.Control().CachePending {
		t.Errorf("a control installed at run time has CachePending off")
	}
}
