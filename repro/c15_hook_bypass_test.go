package cron

// Repro for the C15 known findings (copy into /repo/cron; go test -run TestVerifHookBypass).
// A scheduled rule that leaves a location through a deleteWith cascade, or a linear location that is
// cleared, is not unregistered from the cron service: the removal hook is bypassed.
// This test FAILS on the pinned tree (that is the finding); it documents the behaviour.

import (
	"testing"

	"github.com/Comcast/rulio/core"
)

type recCron struct{ jobs map[string]bool }

func (c *recCron) Persistent() bool { return true }
func (c *recCron) Schedule(ctx *core.Context, sw *ScheduledWork) error { return nil }
func (c *recCron) ScheduleEvent(ctx *core.Context, se *ScheduledEvent) error {
	c.jobs[se.Id] = true
	return nil
}
func (c *recCron) Rem(ctx *core.Context, id string) (bool, error) {
	_, had := c.jobs[id]
	delete(c.jobs, id)
	return had, nil
}

func verifHookLoc(t *testing.T, linear bool) (*core.Context, *core.Location, *recCron) {
	ctx := core.NewContext("repro")
	store, _ := core.NewMemStorage(ctx)
	var state core.State
	if linear {
		state, _ = core.NewLinearState(ctx, "h", store)
	} else {
		state, _ = core.NewIndexedState(ctx, "h", store)
	}
	rc := &recCron{jobs: map[string]bool{}}
	AddHooks(ctx, rc, state)
	loc, err := core.NewLocation(ctx, "h", state, nil)
	if err != nil {
		t.Fatal(err)
	}
	return ctx, loc, rc
}

func TestVerifHookBypassCascade(t *testing.T) {
	for _, linear := range []bool{false, true} {
		ctx, loc, rc := verifHookLoc(t, linear)
		loc.AddFact(ctx, "parent", core.Map{"p": "1"})
		rule := core.Map{"schedule": "+1h", "action": map[string]interface{}{"code": "1"}, "deleteWith": []interface{}{"parent"}}
		if _, err := loc.AddRule(ctx, "r", rule); err != nil {
			t.Fatal(err)
		}
		if !rc.jobs["r"] {
			t.Fatal("rule not scheduled")
		}
		loc.RemFact(ctx, "parent")
		if _, err := loc.GetRule(ctx, "r"); err == nil {
			t.Fatal("cascade did not delete the rule")
		}
		if rc.jobs["r"] {
			t.Errorf("linear=%v: rule r was deleted by the cascade but is still registered with the cron service", linear)
		}
	}
}

func TestVerifHookBypassLinearClear(t *testing.T) {
	ctx, loc, rc := verifHookLoc(t, true)
	rule := core.Map{"schedule": "+1h", "action": map[string]interface{}{"code": "1"}}
	loc.AddRule(ctx, "r", rule)
	loc.Clear(ctx)
	if rc.jobs["r"] {
		t.Errorf("location cleared but rule r is still registered with the cron service")
	}
}
