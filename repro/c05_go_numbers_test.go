package core

// Run-time confirmation for CAST-NUMBERS (all kinds) and IDX-CANON (C05, C01; reported by the round-6 C03/C05/C06
// sub-agents as the part 0948642 left out; copy into core/ of a scratch copy):
//
//   go test -mod=mod -vet=off -count=1 -run TestVerifGoNumbers ./core/
//
// (1) cast knew int, int32, int64, uint32, uint64 but not uint16 (what otto exports for 'x'.charCodeAt(0)), uint8,
// int8, int16, uint: such a number in a pattern was an `unknown pattern type`.
// (2) The rule index was not told at all: an event whose array holds int64s (what a script's numbers are) was
// `not sortable` and failed for every rule of an IndexedState; a `when` with such an array was refused.

import "testing"

func TestVerifGoNumbersCast(t *testing.T) {
	ctx := NewContext("repro")
	for _, n := range []interface{}{uint16(104), uint8(104), int8(104), int16(104), uint(104)} {
		bss, err := Matches(ctx, map[string]interface{}{"c": []interface{}{n}}, map[string]interface{}{"c": []interface{}{104.0, 105.0}})
		if err != nil {
			t.Errorf("%T: %v", n, err)
		} else if len(bss) != 1 {
			t.Errorf("%T: [104] does not match [104,105]", n)
		}
	}
}

func TestVerifGoNumbersIndex(t *testing.T) {
	ctx := NewContext("repro")
	store, _ := NewMemStorage(ctx)
	state, _ := NewIndexedState(ctx, "h", store)
	state.Load(ctx)
	rule := Map{"rule": map[string]interface{}{
		"when":   map[string]interface{}{"pattern": map[string]interface{}{"ns": []interface{}{1.0, 2.0}}},
		"action": map[string]interface{}{"code": "1"},
	}}
	if _, err := state.Add(ctx, "r", rule); err != nil {
		t.Fatal(err)
	}
	// the same event as JSON would give it, and as a script gives it
	for _, ev := range []map[string]interface{}{
		{"ns": []interface{}{1.0, 2.0}},
		{"ns": []interface{}{int64(1), int64(2)}},
		{"ns": []interface{}{int64(2), int64(1)}},
	} {
		rs, err := state.FindRules(ctx, ev)
		if err != nil {
			t.Errorf("event %#v: %v", ev, err)
		} else if len(rs) != 1 {
			t.Errorf("event %#v: %d rules found, wanted 1", ev, len(rs))
		}
	}
	rule2 := Map{"rule": map[string]interface{}{
		"when":   map[string]interface{}{"pattern": map[string]interface{}{"ns": []interface{}{int64(3), int64(4)}}},
		"action": map[string]interface{}{"code": "1"},
	}}
	if _, err := state.Add(ctx, "r2", rule2); err != nil {
		t.Errorf("a `when` with int64 members is refused: %v", err)
	} else if rs, err := state.FindRules(ctx, map[string]interface{}{"ns": []interface{}{3.0, 4.0}}); err != nil || len(rs) != 1 {
		t.Errorf("the rule with int64 members is not found by the JSON event: %v %v", rs, err)
	}
}
