package core

// Repro for C12 (copy into /repo/core; go test -race -run TestVerifCtxLogPropsRace).
// Before the fix: Context.SetLogValue wrote, and Log read, the context's log-property map with no
// lock while SubContext copies it under the context's read lock: concurrent requests sharing a
// context race on the map (and can die with "concurrent map iteration and map write").

import (
	"sync"
	"testing"
)

func TestVerifCtxLogPropsRace(t *testing.T) {
	ctx := NewContext("repro")
	ctx.Verbosity = EVERYTHING
	ctx.Logger = BenchLogger
	var wg sync.WaitGroup
	wg.Add(2)
	go func() {
		defer wg.Done()
		for i := 0; i < 2000; i++ {
			ctx.SetLogValue("k", i)
		}
	}()
	go func() {
		defer wg.Done()
		for i := 0; i < 2000; i++ {
			Log(INFO, ctx, "repro", "i", i)
			_ = ctx.SubContext()
		}
	}()
	wg.Wait()
}
