// Run-time confirmation for the C19 finding GATE-UNTRUSTED (gate clause) (test by the round-5 C19 sub-agent; copy into
// sys/ of a scratch copy):
//
//   go test -mod=mod -vet=off -count=1 -run TestUnchangedC19CreateLocationIgnoresProtection ./sys/
//
// System.CreateLocation (reachable as /api/loc/admin/create) wrote the creation marker with the ungated Location.SetProp:
// a caller without the key added a fact to a write-protected location, and to a disabled one.
package sys

import (
	"testing"

	. "github.com/Comcast/rulio/core"
)

func c19StorageSize(t *testing.T, sys *System, ctx *Context, location string) int {
	storage, err := sys.PeekStorage(ctx)
	if err != nil {
		t.Fatal(err)
	}
	pairs, err := storage.Load(ctx, location)
	if err != nil {
		t.Fatal(err)
	}
	return len(pairs)
}

// U6.  System.CreateLocation (and so /api/loc/admin/create) writes the
// creation marker with Location.SetProp, which asks for nothing (see
// U1): a caller without the key adds a fact to a location that has a
// write key, and to a disabled location.
func TestUnchangedC19CreateLocationIgnoresProtection(t *testing.T) {
	for _, mode := range []string{"writeKey", "disabled"} {
		sys, owner := ExampleSystem("c19")
		location := "there-" + mode

		owner.WriteKey = "sesame"
		if _, err := sys.AddFact(owner, location, "homer", `{"likes":"beer"}`); err != nil {
			t.Fatal(err)
		}
		switch mode {
		case "writeKey":
			if _, err := sys.AddFact(owner, location, "", `{"!writeKey":"sesame"}`); err != nil {
				t.Fatal(err)
			}
		case "disabled":
			if _, err := sys.AddFact(owner, location, "", `{"!enabled":"false"}`); err != nil {
				t.Fatal(err)
			}
		}

		intruder := NewContext("intruder")
		if _, err := sys.AddFact(intruder, location, "", `{"likes":"chips"}`); err == nil {
			t.Fatalf("%s: AddFact was not refused", mode)
		}
		before := c19StorageSize(t, sys, owner, location)

		created, err := sys.CreateLocation(intruder, location)
		if err == nil {
			t.Errorf("%s: CreateLocation without the key was not refused (created=%v)", mode, created)
		}
		if after := c19StorageSize(t, sys, owner, location); after != before {
			t.Errorf("%s: storage changed: %d -> %d pairs", mode, before, after)
		}
		sys.Close(owner)
	}
}

