package cron

// Run-time confirmation for the C15 finding HOOK-REPLACE (copy into cron/ of a scratch copy):
//
//   go test -mod=mod -vet=off -count=1 -run TestVerifReplacedByOrdinary ./cron/
//
// Overwriting a scheduled rule with an ordinary rule (or fact) under the same id did not unregister the job: the add
// hook returned early for a fact without a schedule, and no removal hook runs on an overwrite.

import (
	"testing"

	"github.com/Comcast/rulio/core"
)

type ephCron2 struct{ jobs map[string]bool }

func (c *ephCron2) Persistent() bool                                          { return false }
func (c *ephCron2) Schedule(ctx *core.Context, sw *ScheduledWork) error       { return nil }
func (c *ephCron2) ScheduleEvent(ctx *core.Context, se *ScheduledEvent) error { c.jobs[se.Id] = true; return nil }
func (c *ephCron2) Rem(ctx *core.Context, id string) (bool, error) {
	_, had := c.jobs[id]
	delete(c.jobs, id)
	return had, nil
}

func TestVerifReplacedByOrdinary(t *testing.T) {
	for _, kind := range []string{"indexed", "linear"} {
		ctx := core.NewContext("repro")
		store, _ := core.NewMemStorage(ctx)
		var state core.State
		if kind == "indexed" {
			state, _ = core.NewIndexedState(ctx, "h", store)
		} else {
			state, _ = core.NewLinearState(ctx, "h", store)
		}
		c := &ephCron2{jobs: map[string]bool{}}
		AddHooks(ctx, c, state)
		loc, err := core.NewLocation(ctx, "h", state, nil)
		if err != nil {
			t.Fatal(err)
		}
		if _, err := loc.AddRule(ctx, "r", core.Map{"schedule": "* * * * *", "action": map[string]interface{}{"code": "1"}}); err != nil {
			t.Fatal(err)
		}
		if len(c.jobs) != 1 {
			t.Fatalf("%s set-up: %d jobs", kind, len(c.jobs))
		}
		if _, err := loc.AddRule(ctx, "r", core.Map{"when": map[string]interface{}{"pattern": map[string]interface{}{"a": "?x"}}, "action": map[string]interface{}{"code": "1"}}); err != nil {
			t.Fatal(err)
		}
		if len(c.jobs) != 0 {
			t.Errorf("%s: the scheduled rule was replaced by an ordinary one, %d job(s) still registered", kind, len(c.jobs))
		}
	}
}
