package cron

// Run-time confirmation for the C15/C16 finding CRON-NEXT-ZERO (copy to cron/ of a scratch copy of the repository):
//
//   go test -mod=mod -vet=off -count=1 -run TestVerifNoFuture ./cron/
//
// cronexpr's Next returns the zero time for an expression with no occurrence left.  Before the fix the job was
// scheduled for the zero time: due at once, rescheduled to the zero time, due at once ... (a tight loop).

import (
	"sync/atomic"
	"testing"
	"time"
)

func TestVerifNoFuture(t *testing.T) {
	c, err := NewCron(nil, time.Second, "nofuture", 1000)
	if err != nil {
		t.Fatal(err)
	}
	go c.Start(nil)
	defer c.Kill(nil)
	time.Sleep(100 * time.Millisecond)
	var fired int32
	err = c.Add(nil, "past", "0 0 0 1 1 * 2015", func(time.Time) error { atomic.AddInt32(&fired, 1); return nil })
	time.Sleep(1 * time.Second)
	if n := atomic.LoadInt32(&fired); n != 0 {
		t.Errorf("a job whose expression has no future occurrence fired %d times in 1s (Add returned %v)", n, err)
	}
}
