package sys

// Run-time confirmation for the C13/C14/C18 finding TYPED-NIL (from the round-5 C14 and C18 sub-agents' reports; copy
// into sys/ of a scratch copy):
//
//   go test -mod=mod -vet=off -count=1 -run TestVerifRetryNilCondition ./sys/
//
// System.RetryEventWork returned loc.RetryEventWork's *Condition as `error`: a nil *Condition in an interface is not
// nil, so every retry "failed" with the message "nil condition" although the work was redone (and
// /api/loc/events/retry always answered 400).

import (
	"testing"
)

func TestVerifRetryNilCondition(t *testing.T) {
	sys, ctx := ExampleSystem("repro")
	if _, err := sys.AddRule(ctx, "here", "r", `{"when":{"pattern":{"a":"?x"}},"action":{"code":"1"}}`); err != nil {
		t.Fatal(err)
	}
	fr, err := sys.ProcessEvent(ctx, "here", `{"a":1}`)
	if err != nil {
		t.Fatal(err)
	}
	if err := sys.RetryEventWork(ctx, "here", fr); err != nil {
		t.Errorf("retrying work that succeeds: %v", err)
	}
}
