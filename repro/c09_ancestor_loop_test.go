package core

// Repro for C09/C13 (copy into /repo/core; go test -run TestVerifIndirectAncestorLoop).
// Before the fix: DoAncestors only noticed a location naming itself; an indirect loop (a -> b -> a)
// recursed until the Go runtime killed the process with a stack overflow.  (Run it in a child process if
// you want to see that: a stack overflow cannot be recovered.)

import "testing"

func TestVerifIndirectAncestorLoop(t *testing.T) {
	ctx := NewContext("repro")
	locs := map[string]*Location{}
	prov := NewSimpleLocationProvider(locs)
	for _, n := range []string{"a", "b", "c"} {
		l, err := NewLocation(ctx, n, nil, nil)
		if err != nil {
			t.Fatal(err)
		}
		l.Provider = prov
		locs[n] = l
	}
	locs["a"].SetParents(ctx, []string{"b"})
	locs["b"].SetParents(ctx, []string{"c"})
	locs["c"].SetParents(ctx, []string{"a"})
	_, err := locs["a"].SearchFacts(ctx, Map{"x": "?y"}, true)
	if err != AncestorLoop {
		t.Fatalf("expected AncestorLoop, got %v", err)
	}
	// a diamond is not a loop
	locs["c"].SetParents(ctx, []string{})
	locs["a"].SetParents(ctx, []string{"b", "c"})
	if _, err := locs["a"].SearchFacts(ctx, Map{"x": "?y"}, true); err != nil {
		t.Fatalf("diamond reported as %v", err)
	}
}
