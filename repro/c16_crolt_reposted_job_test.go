// Run-time confirmation for the bookkeeping clause of CROLT-TID-OWN (C16; history and test body by the round-7 C16
// sub-agent; copy into crolt/):
//
//   go test -mod=mod -vet=off -count=1 -run TestVerifRepostedJobFires ./crolt/
//
// fbcf488 made Add clear `tid` because a job posted from what /get gave for another job carries that job's entry.  What
// /get gives for a one-shot job that has fired also carries "evict":true and "work":{...}: `set` looks at Evict first
// and files the job for eviction, and `work` then evicts it without a request.  The job was accepted and never fired.
package main

import (
	"encoding/json"
	"io/ioutil"
	"net/http"
	"net/http/httptest"
	"path/filepath"
	"sync/atomic"
	"testing"
	"time"

	"github.com/boltdb/bolt"
)

func TestVerifRepostedJobFires(t *testing.T) {
	dir, err := ioutil.TempDir("", "verif")
	if err != nil {
		t.Fatal(err)
	}
	db, err := bolt.Open(filepath.Join(dir, "v.db"), 0600, nil)
	if err != nil {
		t.Fatal(err)
	}
	cron, err := NewCron(db, 4, 0, time.Hour) // No jitter.
	if err != nil {
		t.Fatal(err)
	}
	cron.PollingInterval = 50 * time.Millisecond
	var calls int32
	endpoint := httptest.NewServer(http.HandlerFunc(func(w http.ResponseWriter, r *http.Request) {
		atomic.AddInt32(&calls, 1)
		w.Write([]byte("ok"))
	}))
	defer endpoint.Close()

	job, err := NewJob("homer", "1", "100ms")
	if err != nil {
		t.Fatal(err)
	}
	job.URL = endpoint.URL
	if err = cron.Add(job); err != nil {
		t.Fatal(err)
	}
	_, problems, err := cron.WorkLoops()
	if err != nil {
		t.Fatal(err)
	}
	go func() {
		for range problems {
		}
	}()
	time.Sleep(1500 * time.Millisecond)
	if n := atomic.LoadInt32(&calls); n != 1 {
		t.Fatalf("%d firings of the first job", n)
	}
	// What GetHandler sends ...
	got, err := cron.Get("homer", "1")
	if err != nil {
		t.Fatal(err)
	}
	js, _ := json.Marshal(got)
	// ... and what AddHandler does with that, under another id.
	var again Job
	if err = json.Unmarshal(js, &again); err != nil {
		t.Fatal(err)
	}
	again.Id = "2"
	if err = cron.Add(&again); err != nil {
		t.Fatal(err)
	}
	time.Sleep(1500 * time.Millisecond)
	if n := atomic.LoadInt32(&calls); n != 2 {
		stored, _ := cron.Get("homer", "2")
		sj, _ := json.Marshal(stored)
		t.Errorf("the job posted from %s did not fire in 1.5s (schedule 100ms); stored as %s", js, sj)
	}
}
