package core

// Run-time confirmation for the C01/C04 finding MOD-INDEX (copy into core/ of a scratch copy):
//
//   go test -mod=mod -vet=off -count=1 -run TestVerifEventArraySorted ./core/
//
// SortValues sorted the slice it was given.  PatternIndex.searchPairs hands it the arrays of the event map, which is
// the map bound to ?event: in an IndexedState the actions (and the work tree) saw {"levels":[3,9,10]} for the
// submitted event {"levels":[10,9,3]}.

import (
	"fmt"
	"testing"
)

func TestVerifEventArraySorted(t *testing.T) {
	ctx := NewContext("repro")
	store, _ := NewMemStorage(ctx)
	state, _ := NewIndexedState(ctx, "h", store)
	loc, err := NewLocation(ctx, "h", state, nil)
	if err != nil {
		t.Fatal(err)
	}
	rule := Map{"when": map[string]interface{}{"pattern": map[string]interface{}{"levels": "?ls"}}, "action": map[string]interface{}{"code": "1"}}
	if _, err := loc.AddRule(ctx, "r", rule); err != nil {
		t.Fatal(err)
	}
	event := Map{"levels": []interface{}{10.0, 9.0, 3.0}}
	if _, cond := loc.ProcessEvent(ctx, event); cond != nil {
		t.Fatal(cond.Msg)
	}
	if got := fmt.Sprintf("%v", event["levels"]); got != "[10 9 3]" {
		t.Errorf("the submitted event's array is now %s", got)
	}
}
