package core

// Run-time confirmation for the C06 finding CLEAR-ACK (from the round-5 C06/C02/C01 sub-agents' reports; copy into
// core/ of a scratch copy):
//
//   go test -mod=mod -vet=off -count=1 -run TestVerifFailedClear ./core/
//
// LinearState.Clear and Delete replaced the in-memory facts by an empty map whatever Storage.Clear / Delete answered:
// after a Clear that was reported as failed the live location was empty and a reloaded one had everything.

import (
	"errors"
	"testing"
)

type verifFailClearStore struct {
	Storage
	fail bool
}

func (s *verifFailClearStore) Clear(ctx *Context, loc string) (int64, error) {
	if s.fail {
		return 0, errors.New("injected Clear failure")
	}
	return s.Storage.Clear(ctx, loc)
}

func TestVerifFailedClear(t *testing.T) {
	for _, linear := range []bool{true, false} {
		ctx := NewContext("repro")
		mem, _ := NewMemStorage(ctx)
		store := &verifFailClearStore{Storage: mem}
		var state State
		if linear {
			state, _ = NewLinearState(ctx, "h", store)
		} else {
			state, _ = NewIndexedState(ctx, "h", store)
		}
		loc, err := NewLocation(ctx, "h", state, nil)
		if err != nil {
			t.Fatal(err)
		}
		if _, err := loc.AddFact(ctx, "f1", Map{"likes": "beer"}); err != nil {
			t.Fatal(err)
		}
		store.fail = true
		if err := loc.Clear(ctx); err == nil {
			t.Fatal("Clear should have reported the storage failure")
		}
		store.fail = false
		srs, err := loc.SearchFacts(ctx, Map{"likes": "?x"}, false)
		if err != nil {
			t.Fatal(err)
		}
		pairs, _ := mem.Load(ctx, "h")
		if len(srs.Found) != len(pairs) {
			t.Errorf("linear=%v: after a failed Clear the live location finds %d fact(s), storage has %d", linear, len(srs.Found), len(pairs))
		}
	}
}
