package core

// Run-time confirmation for the C12 findings of SHARED-WRITE (copy into core/ of a scratch copy of the repository):
//
//   go test -mod=mod -vet=off -count=1 -race -run TestVerifSharedWrite ./core/
//
// Read-only requests only (no writer at all): ProcessEvent x ProcessEvent on one location both write Rule.Id of
// the same cached *Rule in FindRules.Do; GetRule x GetRule on a rule with an expiry both write "expires" into the
// stored rule body in ExtractRule (a plain Go map: `fatal error: concurrent map writes` without -race).

import (
	"sync"
	"testing"
	"time"
)

func verifSharedWrite(t *testing.T, mk func(ctx *Context, store Storage) (State, error), what string) {
	ctx := NewContext("repro")
	store, _ := NewMemStorage(ctx)
	state, err := mk(ctx, store)
	if err != nil {
		t.Fatal(err)
	}
	loc, err := NewLocation(ctx, "shared", state, nil)
	if err != nil {
		t.Fatal(err)
	}
	rule := Map{"when": map[string]interface{}{"pattern": map[string]interface{}{"x": "?x"}}, "action": map[string]interface{}{"code": "1"},
		"expires": float64(time.Now().Add(time.Hour).Unix())}
	if _, err := loc.AddRule(ctx, "r", rule); err != nil {
		t.Fatal(err)
	}
	loc.ProcessEvent(ctx, Map{"x": "0"}) // parse and cache the rule once
	var wg sync.WaitGroup
	for g := 0; g < 4; g++ {
		wg.Add(1)
		go func() {
			defer wg.Done()
			c := NewContext("c")
			for i := 0; i < 200; i++ {
				if what == "event" {
					loc.ProcessEvent(c, Map{"x": "1"})
				} else {
					loc.GetRule(c, "r")
				}
			}
		}()
	}
	wg.Wait()
}

func TestVerifSharedWriteEventIndexed(t *testing.T) {
	verifSharedWrite(t, func(ctx *Context, store Storage) (State, error) { return NewIndexedState(ctx, "shared", store) }, "event")
}

func TestVerifSharedWriteGetRuleIndexed(t *testing.T) {
	verifSharedWrite(t, func(ctx *Context, store Storage) (State, error) { return NewIndexedState(ctx, "shared", store) }, "getrule")
}

func TestVerifSharedWriteGetRuleLinear(t *testing.T) {
	verifSharedWrite(t, func(ctx *Context, store Storage) (State, error) { return NewLinearState(ctx, "shared", store) }, "getrule")
}
