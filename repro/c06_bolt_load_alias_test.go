package bolt

// Repro for C06 (copy into /repo/storage/bolt; go test -run TestVerifBoltLoadAlias).
// Before the fix: BoltStorage.Load returned slices that alias bolt's memory map; after the View
// transaction ended, later writes (which remap / rewrite pages) changed or invalidated the data already
// handed back.

import (
	"fmt"
	"io/ioutil"
	"os"
	"testing"

	. "github.com/Comcast/rulio/core"
)

func TestVerifBoltLoadAlias(t *testing.T) {
	f, _ := ioutil.TempFile("", "verifbolt")
	name := f.Name()
	f.Close()
	os.Remove(name)
	defer os.Remove(name)
	ctx := NewContext("repro")
	s, err := NewStorage(ctx, name)
	if err != nil {
		t.Fatal(err)
	}
	for i := 0; i < 50; i++ {
		s.Add(ctx, "loc", &Pair{[]byte(fmt.Sprintf("k%03d", i)), []byte(fmt.Sprintf(`{"v":"value-%03d"}`, i))})
	}
	pairs, err := s.Load(ctx, "loc")
	if err != nil {
		t.Fatal(err)
	}
	want := make([]string, len(pairs))
	for i, p := range pairs {
		want[i] = string(p.K) + "=" + string(p.V)
	}
	// later writes proceed: grow the file a lot so that bolt remaps and rewrites pages
	big := make([]byte, 1<<16)
	for i := range big {
		big[i] = 'x'
	}
	for i := 0; i < 400; i++ {
		s.Add(ctx, "loc", &Pair{[]byte(fmt.Sprintf("k%03d", i%50)), big})
		s.Add(ctx, "other", &Pair{[]byte(fmt.Sprintf("o%04d", i)), big})
	}
	for i, p := range pairs {
		got := string(p.K) + "=" + string(p.V)
		if got != want[i] {
			t.Fatalf("pair %d handed back by Load changed under later writes: %.60q -> %.60q", i, want[i], got)
		}
	}
}
