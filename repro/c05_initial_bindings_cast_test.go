package core

// Run-time confirmation for the C05 finding CAST-ALL-INPUTS (test by the round-4 C05 sub-agent; copy into core/ of a
// scratch copy):
//
//   go test -mod=mod -vet=off -count=1 -run TestVerifInitialBindingsCast ./core/
//
// CastMatcher.Match casts the pattern and the fact for the matcher and passed the initial bindings through.  A Go-typed
// value there (core.Map, []string) is used as a pattern where its variable occurs: "unknown pattern type".

import "testing"

func TestVerifInitialBindingsCast(t *testing.T) {
	fact := Map{"k": Map{"a": "b"}, "tags": []string{"x"}}
	bss, err := Match(nil, Map{"k": "?x"}, fact, Bindings{"?x": Map{"a": "b"}})
	if err != nil || len(bss) != 1 {
		t.Errorf("?x bound to an equal core.Map: %#v %v", bss, err)
	}
	given := Bindings{"?t": []string{"x"}}
	bss, err = Match(nil, Map{"tags": "?t"}, fact, given)
	if err != nil || len(bss) != 1 {
		t.Errorf("?t bound to an equal []string: %#v %v", bss, err)
	}
	if _, still := given["?t"].([]string); !still {
		t.Errorf("the caller's bindings were modified: %#v", given)
	}
}

// CAST-NUMBERS: Go integers inside arrays were not converted for the matcher (it converts an integer itself only at the
// top of a pattern or fact): Map{"a": []int{1}} did not match the JSON pattern {"a":[1]}, and a code condition's
// ({xs:[1,2]}) (which otto exports as []int64) never matched a JSON [1,2].
func TestVerifIntsInArrays(t *testing.T) {
	bss, err := Match(nil, Map{"a": []interface{}{1.0}}, Map{"a": []int{1, 2}}, Bindings{})
	if err != nil || len(bss) != 1 {
		t.Errorf("JSON pattern [1] against a Go []int{1,2}: %#v %v", bss, err)
	}
	bss, err = Match(nil, Map{"a": []interface{}{int64(1)}}, Map{"a": []interface{}{1.0, 2.0}}, Bindings{})
	if err != nil || len(bss) != 1 {
		t.Errorf("pattern [int64(1)] against JSON [1,2]: %#v %v", bss, err)
	}
}
