package core

// Run-time confirmation for the C08 finding CASC-NOVAR (from the round-4 C08 and C10 sub-agents' reports; copy into
// core/ of a scratch copy):
//
//   go test -mod=mod -vet=off -count=1 -run TestVerifVariableId ./core/
//
// deleteDependencies searches for {"deleteWith":[id]}.  For an id that starts with "?" that pattern has a variable and
// matches every fact that has any deleteWith: Rem("?x") — even of a fact that does not exist — removed every dependent
// of everybody (properties, `disabled` flags, rules).

import "testing"

func TestVerifVariableId(t *testing.T) {
	for _, linear := range []bool{true, false} {
		ctx := NewContext("repro")
		store, _ := NewMemStorage(ctx)
		var s State
		if linear {
			s, _ = NewLinearState(ctx, "h", store)
		} else {
			s, _ = NewIndexedState(ctx, "h", store)
		}
		if err := s.Load(ctx); err != nil {
			t.Fatal(err)
		}
		if _, err := s.Add(ctx, "a", Map{"likes": "beer"}); err != nil {
			t.Fatal(err)
		}
		if _, err := s.Add(ctx, "b", Map{"likes": "chips", "deleteWith": []interface{}{"a"}}); err != nil {
			t.Fatal(err)
		}
		if _, err := s.Rem(ctx, "?x"); err != nil {
			t.Fatal(err)
		}
		if _, err := s.Get(ctx, "b"); err != nil {
			t.Errorf("linear=%v: b (deleteWith a) went away when ?x was deleted: %v", linear, err)
		}
		if _, err := s.Add(ctx, "?y", Map{"likes": "tacos"}); err == nil {
			t.Errorf("linear=%v: a fact with the id ?y was accepted", linear)
		}
	}
}
