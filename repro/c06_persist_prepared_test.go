package core

// Repro for C06/C07 (copy into /repo/core; go test -run TestVerifPersistPrepared).
// Before the fix: both State implementations persisted the caller's raw map instead of the prepared
// fact, so a fact written with "ttl" restarted its ttl (indexed) or lost its expiry altogether
// (linear) when the location was reloaded from storage.

import (
	"testing"
	"time"
)

func verifReloadExpiry(t *testing.T, mk func(ctx *Context, name string, store Storage) (State, error)) {
	ctx := NewContext("repro")
	store, _ := NewMemStorage(ctx)
	s1, _ := mk(ctx, "pp", store)
	loc1, err := NewLocation(ctx, "pp", s1, nil)
	if err != nil {
		t.Fatal(err)
	}
	if _, err := loc1.AddFact(ctx, "f", Map{"a": "b", "ttl": "2s"}); err != nil {
		t.Fatal(err)
	}
	live, err := loc1.GetFact(ctx, "f")
	if err != nil {
		t.Fatal(err)
	}
	time.Sleep(1200 * time.Millisecond)
	// reload from storage alone
	s2, _ := mk(ctx, "pp", store)
	loc2, err := NewLocation(ctx, "pp", s2, nil)
	if err != nil {
		t.Fatal(err)
	}
	re, err := loc2.GetFact(ctx, "f")
	if err != nil {
		t.Fatalf("reloaded fact missing: %v", err)
	}
	if live["expires"] == nil {
		t.Fatalf("live fact has no expires: %#v", live)
	}
	le, _ := getExpiration(ctx, live)
	rexp, _ := getExpiration(ctx, re)
	if le != rexp {
		t.Fatalf("expiry instant moved by reload: live %d, reloaded %d (%#v)", le, rexp, re)
	}
	time.Sleep(1500 * time.Millisecond)
	if _, err := loc2.GetFact(ctx, "f"); err == nil {
		t.Fatal("fact still visible after its original expiry instant")
	}
}

func TestVerifPersistPreparedIndexed(t *testing.T) {
	verifReloadExpiry(t, func(ctx *Context, name string, store Storage) (State, error) { return NewIndexedState(ctx, name, store) })
}

func TestVerifPersistPreparedLinear(t *testing.T) {
	verifReloadExpiry(t, func(ctx *Context, name string, store Storage) (State, error) { return NewLinearState(ctx, name, store) })
}
