package core

// Run-time confirmation for the repair of the parsed-rule cache (C12, C13, C01, C10; the test bodies are the round-6
// C01 and C13 sub-agents'; copy into core/ of a scratch copy):
//
//   go test -mod=mod -vet=off -count=1 -run TestVerifRuleCacheConcurrentEvents ./core/      (kills the binary before the repair)
//   go test -mod=mod -vet=off -count=1 -run 'TestVerifRuleCacheStale' ./core/
//
// (1) FindCachedRules of both states read and filled `cachedRules` after doFindRules had released the state's lock, with
// no lock at all: two events for one location at the same time are `fatal error: concurrent map writes` (the 14 LOCKSET
// known findings about cachedRules).  (2) An event that overlapped the replacement of a rule cached the replaced rule for
// good.  (3) Add invalidated the cache under the id it was given, not the id the fact is stored under: replacing a rule
// carried by a property fact kept the old parsed rule.

import (
	"errors"
	"fmt"
	"sort"
	"sync"
	"testing"
)

func c01uState(t *testing.T, indexed bool, name string, store Storage) State {
	ctx := BenchContext(name)
	var state State
	var err error
	if indexed {
		state, err = NewIndexedState(ctx, name, store)
	} else {
		state, err = NewLinearState(ctx, name, store)
	}
	if err != nil {
		t.Fatal(err)
	}
	return state
}

func c01uLoc(t *testing.T, indexed bool, name string, store Storage) (*Context, *Location) {
	ctx := BenchContext(name)
	if store == nil {
		store, _ = NewMemStorage(ctx)
	}
	loc, err := NewLocation(ctx, name, c01uState(t, indexed, name, store), nil)
	if err != nil {
		t.Fatal(err)
	}
	return ctx, loc
}

// c01uDispatch processes the event and reports "ruleId:bindings" for
// every rule evaluation.
func c01uDispatch(ctx *Context, loc *Location, event string) ([]string, error) {
	fr, cond := loc.ProcessEvent(ctx, mapJS(event))
	if cond != nil {
		return nil, errors.New(cond.Msg)
	}
	acc := make([]string, 0)
	for _, er := range fr.Children {
		for _, bs := range er.Bindingss {
			clean := make(map[string]interface{})
			for k, v := range bs {
				switch k {
				case "?event", "?location", "?ruleId":
				default:
					clean[k] = v
				}
			}
			acc = append(acc, fmt.Sprintf("%s:%v", er.Rule.Id, clean))
		}
	}
	sort.Strings(acc)
	return acc, nil
}

func c01uRule(when string) Map {
	return mapJS(fmt.Sprintf(`{"when":{"pattern":%s},"action":{"code":"1"}}`, when))
}

func testC01UStaleCacheForPropertyRule(t *testing.T, indexed bool) {
	ctx, loc := c01uLoc(t, indexed, "u3", nil)
	v1 := `{"id":"dev","!handler":"v1","rule":{"when":{"pattern":{"old":"?x"}},"action":{"code":"1"}}}`
	v2 := `{"id":"dev","!handler":"v2","rule":{"when":{"pattern":{"new":"?y"}},"action":{"code":"2"}}}`
	id, err := loc.AddFact(ctx, "", mapJS(v1))
	if err != nil {
		t.Fatal(err)
	}
	if ds, err := c01uDispatch(ctx, loc, `{"old":1}`); err != nil || fmt.Sprint(ds) != "["+id+":map[?x:1]]" {
		t.Fatalf("first version: %v %v", ds, err)
	}
	id2, err := loc.AddFact(ctx, "", mapJS(v2))
	if err != nil || id2 != id {
		t.Fatalf("replacement: %s %v", id2, err)
	}
	if ds, err := c01uDispatch(ctx, loc, `{"new":2}`); err != nil || fmt.Sprint(ds) != "["+id+":map[?y:2]]" {
		t.Errorf("second version, new event: dispatched %v %v, wanted [%s:map[?y:2]]", ds, err, id)
	}
	if ds, err := c01uDispatch(ctx, loc, `{"old":1,"new":2}`); err != nil || fmt.Sprint(ds) != "["+id+":map[?y:2]]" {
		t.Errorf("second version, both: dispatched %v %v, wanted [%s:map[?y:2]]", ds, err, id)
	}
}

func testC01UStaleCacheRace(t *testing.T, indexed bool) {
	ctx, loc := c01uLoc(t, indexed, "u6", nil)
	const rounds = 3000
	stale := 0
	for round := 0; round < rounds && stale == 0; round++ {
		va := fmt.Sprintf(`{"n":%d,"v":"a","x":"?x"}`, round)
		vb := fmt.Sprintf(`{"n":%d,"v":"b","y":"?y"}`, round)
		evA := fmt.Sprintf(`{"n":%d,"v":"a","x":1}`, round)
		evB := fmt.Sprintf(`{"n":%d,"v":"b","y":2}`, round)
		if _, err := loc.AddRule(ctx, "r", c01uRule(va)); err != nil {
			t.Fatal(err)
		}
		var wg sync.WaitGroup
		wg.Add(1)
		go func() {
			defer wg.Done()
			ectx := BenchContext("u6e")
			// Not cached yet, so this event parses the rule.
			c01uDispatch(ectx, loc, evA)
		}()
		if _, err := loc.AddRule(ctx, "r", c01uRule(vb)); err != nil {
			t.Fatal(err)
		}
		wg.Wait()
		// Quiet now.  The stored rule is version b.
		ds, err := c01uDispatch(ctx, loc, evB)
		if err != nil {
			t.Fatal(err)
		}
		if fmt.Sprint(ds) != "[r:map[?y:2]]" {
			stale++
			t.Errorf("round %d: the stored rule has when %s; event %s dispatched %v, wanted [r:map[?y:2]]",
				round, vb, evB, ds)
		}
	}
}

func testCrashConcurrentEvents(t *testing.T, linear bool) {
	ctx := BenchContext("crash")
	store, _ := NewMemStorage(ctx)
	var st State
	if linear {
		st, _ = NewLinearState(ctx, "crash", store)
	} else {
		st, _ = NewIndexedState(ctx, "crash", store)
	}
	loc, err := NewLocation(ctx, "crash", st, nil)
	if err != nil {
		t.Fatal(err)
	}
	for i := 0; i < 200; i++ {
		rule := MustMap(`{"when":{"pattern":{"go":"?x"}},"action":{"code":"1"}}`)
		if _, err := loc.AddRule(ctx, fmt.Sprintf("r%d", i), rule); err != nil {
			t.Fatal(err)
		}
	}
	var wg sync.WaitGroup
	for g := 0; g < 8; g++ {
		wg.Add(1)
		go func() {
			defer wg.Done()
			// Every request has a context of its own.
			c := BenchContext("request")
			if _, cond := loc.ProcessEvent(c, MustMap(`{"go":1}`)); cond != nil {
				t.Error(cond)
			}
		}()
	}
	wg.Wait()
}


func TestVerifRuleCacheConcurrentEventsIndexed(t *testing.T) { testCrashConcurrentEvents(t, false) }
func TestVerifRuleCacheConcurrentEventsLinear(t *testing.T)  { testCrashConcurrentEvents(t, true) }
func TestVerifRuleCacheStalePropertyRuleIndexed(t *testing.T) { testC01UStaleCacheForPropertyRule(t, true) }
func TestVerifRuleCacheStalePropertyRuleLinear(t *testing.T)  { testC01UStaleCacheForPropertyRule(t, false) }
func TestVerifRuleCacheStaleRaceIndexed(t *testing.T)         { testC01UStaleCacheRace(t, true) }
func TestVerifRuleCacheStaleRaceLinear(t *testing.T)          { testC01UStaleCacheRace(t, false) }
