package sys

// Repro for C09/C15 (copy into /repo/sys; go test -run TestVerifCronKeyPerLocation).
// Before the fix: the built-in cron, shared by all locations of a System, keyed jobs by rule id alone:
// scheduling rule "r" in location B replaced location A's job "r", and removing A's rule unscheduled B's.

import (
	"testing"
	"time"

	. "github.com/Comcast/rulio/core"
	"github.com/Comcast/rulio/cron"
)

func TestVerifCronKeyPerLocation(t *testing.T) {
	ctx := NewContext("repro")
	cr, _ := cron.NewCron(nil, time.Second, "verif", 1000)
	go cr.Start(ctx)
	time.Sleep(50 * time.Millisecond)
	conf := ExampleConfig()
	cont := ExampleSystemControl()
	cont.LocationTTL = Forever
	s, err := NewSystem(ctx, *conf, *cont, &cron.InternalCron{Cron: cr})
	if err != nil {
		t.Fatal(err)
	}
	rule := `{"schedule":"+1h","action":{"code":"1"}}`
	for _, loc := range []string{"A", "B"} {
		if _, err := s.AddRule(NewContext(loc), loc, "r", rule); err != nil {
			t.Fatal(err)
		}
	}
	if n := cr.PendingCount(); n != 2 {
		t.Fatalf("two locations scheduled rule r, but the shared cron holds %d job(s)", n)
	}
	if _, err := s.RemRule(NewContext("A"), "A", "r"); err != nil {
		t.Fatal(err)
	}
	if n := cr.PendingCount(); n != 1 {
		t.Fatalf("after removing A's rule the cron holds %d job(s); B's rule must stay scheduled", n)
	}
}
