package sys

// Run-time confirmation for the C17 findings EXIST-EVERY (U1, U2) and LOAD-PURE (U9); written by the round-4 C17
// sub-agent against the unchanged tree (copy into sys/ of a scratch copy):
//
//   go test -mod=mod -vet=off -count=1 -run TestUnchanged ./sys/
//
// Before the fixes all three tests failed.

import (
	"fmt"
	"os"
	"testing"
	"time"

	. "github.com/Comcast/rulio/core"
	"github.com/Comcast/rulio/cron"
)

func unchSystem(t *testing.T, ttl time.Duration, check bool, linear bool, store Storage) *System {
	os.Setenv("RULES_CRON_OVERRIDE", "1")
	ctx := NewContext("unchanged")
	conf := ExampleConfig()
	conf.CheckExistence = check
	conf.UnindexedState = linear
	cont := ExampleSystemControl()
	cont.LocationTTL = ttl
	cont.DefaultLocControl = &Control{MaxFacts: 1000, Verbosity: NOTHING}
	cr, _ := cron.NewCron(nil, time.Second, "intcron", 1000000)
	go cr.Start(ctx)
	sys, err := NewSystem(ctx, *conf, *cont, &cron.InternalCron{Cron: cr})
	if err != nil {
		t.Fatal(err)
	}
	if store != nil {
		sys.storage = store
	}
	return sys
}

func unchCtx(name string) *Context {
	ctx := NewContext(name)
	ctx.Verbosity = NOTHING
	return ctx
}

// U1: ClearLocation wipes the 'created' marker along with everything
// else.  A cached location stays usable, a reloaded one is "not found":
// the outcome of create, clear, add depends on the TTL.
func TestUnchangedClearForgetsCreation(t *testing.T) {
	outcome := make(map[time.Duration]string)
	for _, ttl := range []time.Duration{Forever, Never} {
		sys := unchSystem(t, ttl, true, false, nil)
		ctx := unchCtx("u1")
		if _, err := sys.CreateLocation(ctx, "here"); err != nil {
			t.Fatal(err)
		}
		if err := sys.ClearLocation(ctx, "here"); err != nil {
			t.Fatal(err)
		}
		_, err := sys.AddFact(ctx, "here", "a", `{"a":"1"}`)
		outcome[ttl] = fmt.Sprintf("%v", err)
	}
	if outcome[Forever] != outcome[Never] {
		t.Errorf("create, clear, add: forever gives %q, never gives %q", outcome[Forever], outcome[Never])
	}
}

// U2: a location that was never created becomes usable (and gets
// written) once some other location names it as a parent: parents are
// opened without the existence check, the cache keeps them, and a
// cached location is never checked.
func TestUnchangedGhostParentBecomesUsable(t *testing.T) {
	for _, ttl := range []time.Duration{Forever, Never} {
		sys := unchSystem(t, ttl, true, false, nil)
		ctx := unchCtx("u2")
		if _, err := sys.CreateLocation(ctx, "child"); err != nil {
			t.Fatal(err)
		}
		if _, err := sys.AddFact(ctx, "ghost", "g", `{"g":"1"}`); err == nil {
			t.Fatal("ghost should not exist")
		}
		if _, err := sys.SetParents(ctx, "child", []string{"ghost"}); err != nil {
			t.Fatal(err)
		}
		if _, err := sys.SearchFacts(ctx, "child", `{"g":"?x"}`, true); err != nil {
			t.Logf("ttl=%v inherited search: %v", ttl, err)
		}
		if _, err := sys.AddFact(ctx, "ghost", "g", `{"g":"1"}`); err == nil {
			t.Errorf("ttl=%v: AddFact to a location that was never created succeeded", ttl)
		}
	}
}

// U9: a refused request to a location that was never created leaves
// an (empty) entry for it in MemStorage: MemStorage.Load makes one.
func TestUnchangedGhostRequestTouchesMemStorage(t *testing.T) {
	mem, _ := NewMemStorage(unchCtx("store"))
	sys := unchSystem(t, Forever, true, false, mem)
	if _, err := sys.AddFact(unchCtx("u9"), "ghost", "g", `{"g":"1"}`); err == nil {
		t.Fatal("ghost should not exist")
	}
	if _, have := mem.State(unchCtx("u9"))["ghost"]; have {
		t.Errorf("storage now knows the location that was never created")
	}
}
