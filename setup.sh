#!/bin/bash
# Build the checker from files on disk only (offline).
cd "$(dirname "$0")"
export GOFLAGS=-mod=mod GOPROXY=off GOSUMDB=off GOTOOLCHAIN=local
unset GOWORK
mkdir -p bin evidence
cd rulint && go build -o ../bin/rulint . && echo "built /verif/bin/rulint"
